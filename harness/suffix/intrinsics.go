package suffix

// Harness intrinsics. The symbolic engine intercepts every function whose name
// starts with "verif" and ignores these bodies; a native build (replay of a
// counterexample) runs them, reading the solver's assignment from verifValues.

import "fmt"

var (
	verifValues   map[string]uint64 // set by the replay test
	verifParams   map[string]int64
	verifFailures []string
	verifReached  map[string]int
	verifNotes    []string
)

type verifAssumeFailed struct{ where string }

func verifU8(name string) uint8   { return uint8(verifValues[name]) }
func verifU16(name string) uint16 { return uint16(verifValues[name]) }
func verifU32(name string) uint32 { return uint32(verifValues[name]) }
func verifU64(name string) uint64 { return verifValues[name] }
func verifInt(name string) int    { return int(int64(verifValues[name])) }
func verifInt64(name string) int64 {
	return int64(verifValues[name])
}
func verifBool(name string) bool { return verifValues[name] != 0 }

func verifName(name string, i int) string { return fmt.Sprintf("%s[%d]", name, i) }

func verifAssume(c bool) {
	if !c {
		panic(verifAssumeFailed{})
	}
}

func verifAssert(c bool, label string) {
	if !c {
		verifFailures = append(verifFailures, label)
	}
}

// verifAssertNow is verifAssert decided immediately (later code may rely on it).
func verifAssertNow(c bool, label string) { verifAssert(c, label) }

func verifFail(label string)  { verifFailures = append(verifFailures, label) }
func verifReach(label string) {
	if verifReached != nil {
		verifReached[label]++
	}
}
func verifNote(s string)      { verifNotes = append(verifNotes, s) }

func verifAnd(a, b bool) bool     { return a && b }
func verifOr(a, b bool) bool      { return a || b }
func verifImplies(a, b bool) bool { return !a || b }
func verifB2I(b bool) int {
	if b {
		return 1
	}
	return 0
}
func verifIteInt(c bool, a, b int) int {
	if c {
		return a
	}
	return b
}
func verifIteU8(c bool, a, b uint8) uint8 {
	if c {
		return a
	}
	return b
}

// verifChoose is a nondeterministic choice in [0,n); the engine forks.
func verifChoose(name string, n int) int {
	v := int(int64(verifValues[name]))
	if v < 0 || v >= n {
		panic(verifAssumeFailed{name})
	}
	return v
}

// verifConc forces the engine to case-split on the value of x.
func verifConc(x int) int { return x }

func verifParam(name string) int {
	v, ok := verifParams[name]
	if !ok {
		panic("missing parameter " + name)
	}
	return int(v)
}

// verifParamOr is verifParam with a default for parameters the job does not set.
func verifParamOr(name string, def int) int {
	if v, ok := verifParams[name]; ok {
		return int(v)
	}
	return def
}

// verifBytes returns n arbitrary bytes (len = cap = n).
func verifBytes(name string, n int) []byte { return verifBytesCap(name, n, n) }

// verifBytesCap returns a slice of length n and capacity c whose c bytes are arbitrary.
func verifBytesCap(name string, n, c int) []byte {
	if c < n {
		c = n
	}
	p := make([]byte, c)
	for i := range p {
		p[i] = byte(verifValues[fmt.Sprintf("%s[%d]", name, i)])
	}
	return p[:n]
}
