package suffix

// zzH_matchLen: matchLen(a,b) == length of the longest common prefix.
func zzH_matchLen() {
	n := verifParam("n")
	la := verifChoose("la", n+1)
	lb := verifChoose("lb", n+1)
	a := verifBytes("a", la)
	b := verifBytes("b", lb)
	got := matchLen(a, b)
	ok := true
	want := 0
	for i := 0; i < la && i < lb; i++ {
		ok = verifAnd(ok, a[i] == b[i])
		want += verifB2I(ok)
	}
	verifReach("end")
	verifAssert(got == want, "matchLen differs from reference [C09]")
}
