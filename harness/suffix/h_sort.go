package suffix

// Harnesses for Sort, LCP, InvertSA (C09).

// zzLetters: text of n bytes over the fixed alphabet {0x00, 0x01, 0x7f, 0xfe, 0xff}
// (values that are special in k1.go: sigma-1, sigma-2, bucket row 255), chosen symbolically.
func zzLetters(n, k int) []byte {
	alpha := []byte{0x00, 0xff, 0x01, 0xfe, 0x7f}
	t := make([]byte, n)
	for i := range t {
		if pin := verifParamOr(verifName("p", i), -1); pin >= 0 {
			t[i] = alpha[pin] // job split: this job explores one letter at this position
			continue
		}
		c := alpha[0]
		for a := 1; a < k; a++ {
			c = verifIteU8(verifBool(verifName("t"+string(rune('0'+a)), i)), alpha[a], c)
		}
		t[i] = c
	}
	return t
}

func zzCheckSA(t []byte, sa []int32, tag string) {
	n := len(t)
	// permutation
	ok := true
	for i := 0; i < n; i++ {
		cnt := 0
		for j := 0; j < n; j++ {
			cnt += verifB2I(int(sa[j]) == i)
		}
		ok = verifAnd(ok, cnt == 1)
	}
	verifAssert(ok, tag+": sa is not a permutation of 0..n-1 [C09]")
	if !ok {
		return
	}
	ref := zzRefSort(t)
	same := true
	for i := range ref {
		same = verifAnd(same, sa[i] == ref[i])
	}
	verifAssert(same, tag+": sa is not the lexicographic order of the suffixes [C09]")
}

// zzH_sortSmall: Sort on small texts, arbitrary previous contents of sa, t unchanged.
func zzH_sortSmall() {
	n := verifParam("n")
	k := verifParam("k")
	t := zzLetters(n, k)
	t0 := append([]byte(nil), t...)
	sa := make([]int32, n)
	for i := range sa {
		sa[i] = int32(verifU32(verifName("junk", i)))
	}
	Sort(t, sa)
	same := true
	for i := range t {
		same = verifAnd(same, t[i] == t0[i])
	}
	verifAssert(same, "Sort modified the text [C09]")
	zzCheckSA(t, sa, "Sort")
	verifReach("end")
}

// zzH_lcpTable: LCP and InvertSA on texts of n arbitrary bytes with the correct
// suffix array (reference sort, one path per order type).
func zzH_lcpTable() {
	n := verifParam("n")
	t := verifBytes("t", n)
	sa := zzRefSort(t)
	inv := make([]int32, n)
	InvertSA(sa, inv)
	ok := true
	for i := 0; i < n; i++ {
		ok = verifAnd(ok, int(sa[inv[i]]) == i)
	}
	verifAssert(ok, "InvertSA is not the inverse permutation [C09]")
	mode := verifChoose("mode", 2+verifParamOr("withSort", 0))
	lcp := make([]int32, n)
	for i := range lcp {
		lcp[i] = int32(verifU32(verifName("junk", i)))
	}
	switch mode {
	case 0:
		LCP(t, sa, inv, lcp)
	case 1:
		LCP(t, sa, nil, lcp) // sainv computed internally
	default:
		LCP(t, nil, nil, lcp) // sa computed internally by the real Sort
	}
	good := true
	for j := 0; j < n; j++ {
		want := 0
		if j > 0 {
			want = zzNaiveLCP(t, int(sa[j-1]), int(sa[j]))
		}
		good = verifAnd(good, int(lcp[j]) == want)
	}
	verifAssert(good, "LCP table differs from the naive longest common prefixes [C09]")
	verifReach("end")
}
