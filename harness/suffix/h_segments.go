package suffix

// Harnesses for Segments (C10).

type zzCall struct {
	m      int
	lo, hi int
	ok     bool
}

// zzSegCheck runs Segments on (sa, lcp) with labels sa[i] = base+i and checks
// the callbacks against the interval structure of lcp. vals[j] = lcp[j] as int.
func zzSegCheck(n int, lcp []int32, minLen, maxLen int, tag string) {
	const base = 100
	sa := make([]int32, n)
	for i := range sa {
		sa[i] = int32(base + i)
	}
	var calls []zzCall
	f := func(m int, seg []int32) {
		c := zzCall{m: m}
		if len(seg) > 0 {
			c.lo = int(seg[0]) - base
			c.hi = c.lo + len(seg)
			c.ok = true
			for k := range seg {
				if int(seg[k]) != base+c.lo+k {
					c.ok = false
				}
			}
		}
		calls = append(calls, c)
	}
	Segments(sa, lcp, minLen, maxLen, f)

	for k := range calls {
		c := calls[k]
		verifAssert(c.ok, tag+": callback segment is not a contiguous run of distinct suffixes [C10]")
		if !c.ok {
			return
		}
		verifAssert(minLen <= c.m && c.m <= maxLen, tag+": m outside minLen..maxLen [C10]")
		verifAssert(0 <= c.lo && c.lo < c.hi && c.hi <= n, tag+": segment outside the suffix array [C10]")
		// all members share their first m bytes: every lcp value inside the segment is >= m
		all := true
		for j := c.lo + 1; j < c.hi; j++ {
			all = verifAnd(all, int(lcp[j]) >= c.m)
		}
		verifAssert(all, tag+": segment members do not share a prefix of length m [C10]")
	}
	// completeness and uniqueness: for every pair a < b with common prefix c >= minLen exactly
	// one callback has m = min(c, maxLen) and contains both
	for a := 0; a < n; a++ {
		c := 1 << 30
		for b := a + 1; b < n; b++ {
			c = verifIteInt(int(lcp[b]) < c, int(lcp[b]), c)
			want := verifIteInt(c > maxLen, maxLen, c)
			cnt := 0
			for k := range calls {
				if calls[k].lo <= a && b < calls[k].hi {
					cnt += verifB2I(calls[k].m == want)
				}
			}
			verifAssert(verifImplies(c >= minLen, cnt == 1), tag+": a pair of suffixes with common prefix >= minLen is not in exactly one callback with m = min(c, maxLen) [C10]")
		}
	}
	// order: a group nested in another one with a longer prefix is reported first
	for i := range calls {
		for j := i + 1; j < len(calls); j++ {
			ci, cj := calls[i], calls[j]
			inside := ci.lo <= cj.lo && cj.hi <= ci.hi && (ci.lo < cj.lo || cj.hi < ci.hi)
			if inside {
				verifAssert(cj.m <= ci.m, tag+": a group with a longer common prefix is reported after the group that contains it [C10]")
			}
		}
	}
	if len(calls) > 1 {
		verifReach("nested")
	}
}

// zzLens chooses 0 <= minLen <= maxLen from {0..n+1, MaxInt32}: lcp values are at most n-1,
// so every larger bound behaves like n+1 (MaxInt32 is kept as the value callers use for "no limit").
func zzLens(n int) (minLen, maxLen int) {
	minLen = verifChoose("minLen", n+2)
	mx := verifChoose("mx", n+3)
	maxLen = mx
	if mx == n+2 {
		maxLen = 1<<31 - 1
	}
	verifAssume(minLen <= maxLen)
	return minLen, maxLen
}

// zzH_segArray: arbitrary lcp arrays (every text's lcp table is among them).
func zzH_segArray() {
	n := verifParam("n")
	lcp := make([]int32, n)
	for j := 1; j < n; j++ {
		v := verifU8(verifName("lcp", j))
		verifAssume(int(v) <= n-1)
		lcp[j] = int32(v)
	}
	minLen, maxLen := zzLens(n)
	zzSegCheck(n, lcp, minLen, maxLen, "Segments(array)")
	verifReach("end")
}

// zzRefSort: reference suffix sort (insertion sort with naive comparison).
// It forks on byte comparisons, so sa is concrete on every path.
func zzRefSort(t []byte) []int32 {
	n := len(t)
	sa := make([]int32, 0, n)
	for i := 0; i < n; i++ {
		// position of suffix i among the suffixes inserted so far
		k := len(sa)
		for k > 0 && zzSuffixLess(t, i, int(sa[k-1])) {
			k--
		}
		sa = append(sa, 0)
		copy(sa[k+1:], sa[k:])
		sa[k] = int32(i)
	}
	return sa
}

// zzSuffixLess: t[a:] < t[b:] lexicographically (a != b).
func zzSuffixLess(t []byte, a, b int) bool {
	for a < len(t) && b < len(t) {
		if t[a] != t[b] {
			return t[a] < t[b]
		}
		a++
		b++
	}
	return a == len(t) // the shorter suffix is a proper prefix of the other
}

func zzNaiveLCP(t []byte, a, b int) int {
	k := 0
	for a+k < len(t) && b+k < len(t) && t[a+k] == t[b+k] {
		k++
	}
	return k
}

// zzH_segText: texts of n arbitrary bytes; sa and lcp by the reference
// implementations (one path per order type of the bytes).
func zzH_segText() {
	n := verifParam("n")
	t := verifBytes("t", n)
	sa := zzRefSort(t)
	lcp := make([]int32, n)
	for j := 1; j < n; j++ {
		lcp[j] = int32(zzNaiveLCP(t, int(sa[j-1]), int(sa[j])))
	}
	minLen, maxLen := zzLens(n)
	zzSegCheck(n, lcp, minLen, maxLen, "Segments(text)")
	verifReach("end")
}
