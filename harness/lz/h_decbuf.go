package lz

// IS harnesses for DecoderBuffer (C04, C05, C17): one operation from an
// arbitrary buffer state that satisfies the representation invariant.

// zzDecState builds an arbitrary DecoderBuffer: len(Data) <= P, cap <= P,
// symbolic bytes, R, Off, WindowSize, BufferSize (<= PB) under the invariant.
func zzDecState() (b *DecoderBuffer, d0 []byte) {
	P := verifParam("P")
	PB := verifParam("PB")
	ld := verifChoose("ld", P+1)
	cd := ld + verifChoose("cx", P+1-ld)
	data := verifBytesCap("D", ld, cd)
	b = &DecoderBuffer{Data: data}
	b.R = verifInt("R")
	b.Off = verifInt64("Off")
	b.WindowSize = verifInt("W")
	b.BufferSize = verifInt("B")
	verifAssume(0 <= b.R)
	verifAssume(b.R <= ld)
	verifAssume(0 <= b.WindowSize)
	verifAssume(b.WindowSize < b.BufferSize)
	verifAssume(b.BufferSize <= PB)
	verifAssume(ld <= b.BufferSize)
	verifAssume(b.Off >= int64(ld))
	verifAssume(b.Off <= 1<<40)
	// the window stays addressable: len(Data) >= min(WindowSize, Off)
	verifAssume(verifOr(ld >= b.WindowSize, b.Off == int64(ld)))
	d0 = append([]byte(nil), data...)
	return b, d0
}

// zzDecInv asserts the invariant on the post-state.
func zzDecInv(b *DecoderBuffer, tag string) {
	verifAssert(0 <= b.R, tag+": R < 0 [C04]")
	verifAssert(b.R <= len(b.Data), tag+": R > len(Data) [C04]")
	verifAssert(b.WindowSize < b.BufferSize, tag+": WindowSize >= BufferSize [C04]")
	verifAssert(verifOr(len(b.Data) <= b.BufferSize, len(b.Data) <= cap(b.Data)), tag+": len(Data) beyond BufferSize and cap [C04]")
	verifAssert(b.Off >= int64(len(b.Data)), tag+": Off < len(Data) [C04,C17]")
	verifAssert(verifOr(len(b.Data) >= b.WindowSize, b.Off == int64(len(b.Data))), tag+": window not addressable [C04]")
}

// zzDecPost checks Data' = drop(delta, d0) ++ app, R' = R0 - delta, delta <= R0,
// Off' = Off0 + len(app).
func zzDecPost(b *DecoderBuffer, d0 []byte, r0 int, off0 int64, app []byte, tag string) {
	total := len(d0) + len(app)
	delta := total - len(b.Data)
	verifAssert(delta >= 0, tag+": buffer longer than old data plus expansion [C04]")
	if delta < 0 {
		return
	}
	verifAssert(delta <= r0, tag+": unread bytes discarded [C04,C18]")
	verifAssert(b.R == r0-delta, tag+": R not moved with the data [C04]")
	verifAssert(b.Off == off0+int64(len(app)), tag+": Off is not the number of bytes written [C17]")
	ok := true
	for i := 0; i < len(b.Data); i++ {
		j := delta + i
		var want byte
		if j < len(d0) {
			want = d0[j]
		} else {
			want = app[j-len(d0)]
		}
		ok = verifAnd(ok, b.Data[i] == want)
	}
	verifAssert(ok, tag+": buffer content differs from reference expansion [C04,C05]")
	w := b.WindowSize
	// the most recent min(WindowSize, written) bytes stay addressable
	verifAssert(verifOr(len(b.Data) >= w, b.Off == int64(len(b.Data))), tag+": window lost [C04]")
}

func zzH_decWriteByte() {
	b, d0 := zzDecState()
	r0, off0 := b.R, b.Off
	c := verifU8("c")
	err := b.WriteByte(c)
	if err != nil {
		verifAssert(err == ErrFullBuffer, "WriteByte: unexpected error [C04]")
		zzDecPost(b, d0, r0, off0, nil, "WriteByte(full)")
	} else {
		zzDecPost(b, d0, r0, off0, []byte{c}, "WriteByte")
	}
	zzDecInv(b, "WriteByte")
	verifReach("end")
}

func zzH_decWrite() {
	b, d0 := zzDecState()
	r0, off0 := b.R, b.Off
	lp := verifChoose("lp", verifParam("LP")+1)
	p := verifBytes("p", lp)
	n, err := b.Write(p)
	if err != nil {
		verifAssert(err == ErrFullBuffer, "Write: unexpected error [C04]")
		verifAssert(n == 0, "Write: n != 0 on error [C17]")
		zzDecPost(b, d0, r0, off0, nil, "Write(full)")
	} else {
		verifAssert(n == lp, "Write: n != len(p) [C17]")
		zzDecPost(b, d0, r0, off0, p, "Write")
	}
	zzDecInv(b, "Write")
	verifReach("end")
}

// zzExpandMatch appends the naive byte-at-a-time expansion of (m,o) to g.
func zzExpandMatch(g []byte, m, o int) []byte {
	for j := 0; j < m; j++ {
		g = append(g, g[len(g)-o])
	}
	return g
}

func zzH_decWriteMatch() {
	b, d0 := zzDecState()
	r0, off0 := b.R, b.Off
	m := verifU32("m")
	o := verifU32("o")
	avail := b.WindowSize
	if len(d0) < avail {
		avail = len(d0)
	}
	invalid := verifOr(verifAnd(o == 0, m > 0), int64(o) > int64(avail))
	n, err := b.WriteMatch(m, o)
	if err != nil {
		verifAssert(n == 0, "WriteMatch: n != 0 on error [C17,C05]")
		verifAssert(verifOr(invalid, verifOr(err == ErrFullBuffer, err == errMatchLen)), "WriteMatch: valid match rejected as malformed [C04]")
		zzDecPost(b, d0, r0, off0, nil, "WriteMatch(err)")
	} else {
		verifAssert(!invalid, "WriteMatch: malformed match accepted [C05]")
		mm := verifConc(int(m))
		oo := verifConc(int(o))
		verifAssert(n == mm, "WriteMatch: n != m [C17]")
		g := append([]byte(nil), d0...)
		if mm > 0 {
			g = zzExpandMatch(g, mm, oo)
		}
		zzDecPost(b, d0, r0, off0, g[len(d0):], "WriteMatch")
		verifReach("match-ok")
	}
	zzDecInv(b, "WriteMatch")
	verifReach("end")
}

func zzH_decRead() {
	b, d0 := zzDecState()
	r0, off0 := b.R, b.Off
	lp := verifChoose("lp", verifParam("LP")+1)
	p := make([]byte, lp)
	n, err := b.Read(p)
	verifAssert(err == nil, "Read: error [C04]")
	want := len(d0) - r0
	want = verifIteInt(want > lp, lp, want)
	verifAssert(n == want, "Read: n != min(len(p), unread) [C04]")
	nn := verifConc(n)
	rr := verifConc(r0)
	ok := true
	for i := 0; i < nn; i++ {
		ok = verifAnd(ok, p[i] == d0[rr+i])
	}
	verifAssert(ok, "Read: bytes differ from the unread data [C04]")
	verifAssert(b.R == r0+n, "Read: R not advanced by n [C04]")
	zzDecPost(b, d0, r0+n, off0, nil, "Read")
	zzDecInv(b, "Read")
	verifReach("end")
}

// zzWriter is a contract-abiding io.Writer stub: it accepts k <= len(p) bytes
// and returns an error iff k < len(p).
type zzWriter struct {
	got    []byte
	calls  int
	faults int // number of calls that may still fail
	err    error
}

func (w *zzWriter) Write(p []byte) (int, error) {
	w.calls++
	k := len(p)
	if w.faults > 0 && len(p) > 0 {
		k = verifChoose(verifName("wk", w.calls), len(p)+1)
		if k < len(p) {
			w.faults--
		}
	}
	w.got = append(w.got, p[:k]...)
	if k < len(p) {
		return k, w.err
	}
	return k, nil
}

func zzH_decWriteTo() {
	b, d0 := zzDecState()
	r0, off0 := b.R, b.Off
	w := &zzWriter{faults: 1, err: ErrOutOfBuffer}
	n, err := b.WriteTo(w)
	k := len(w.got)
	verifAssert(n == int64(k), "WriteTo: n != bytes accepted [C04,C18]")
	rr := verifConc(r0)
	ok := true
	for i := 0; i < k; i++ {
		ok = verifAnd(ok, w.got[i] == d0[rr+i])
	}
	verifAssert(ok, "WriteTo: bytes differ from unread data [C04,C18]")
	verifAssert(k <= len(d0)-rr, "WriteTo: more than the unread data [C04,C18]")
	if err == nil {
		verifAssert(k == len(d0)-rr, "WriteTo: nil error but data left [C04,C18]")
	} else {
		verifAssert(err == ErrOutOfBuffer, "WriteTo: not the writer's error [C18]")
	}
	verifAssert(b.R == r0+k, "WriteTo: R not advanced by the accepted count [C04,C18]")
	zzDecPost(b, d0, r0+k, off0, nil, "WriteTo")
	zzDecInv(b, "WriteTo")
	verifReach("end")
}

func zzH_decReset() {
	b, _ := zzDecState()
	w0 := b.WindowSize
	b.Reset()
	verifAssert(len(b.Data) == 0, "Reset: data not empty [C04]")
	verifAssert(b.R == 0, "Reset: R != 0 [C04]")
	verifAssert(b.Off == 0, "Reset: Off != 0 [C04,C17]")
	verifAssert(b.WindowSize == w0, "Reset: WindowSize changed [C04]")
	zzDecInv(b, "Reset")
	verifReach("end")
}

// zzH_decWriteBlock: arbitrary block (NS sequences with unconstrained uint32
// fields, NL literal bytes) into an arbitrary buffer state.
func zzH_decWriteBlock() {
	b, d0 := zzDecState()
	r0, off0 := b.R, b.Off
	ns := verifChoose("ns", verifParam("NS")+1)
	nl := verifChoose("nl", verifParam("NL")+1)
	lits := verifBytes("lit", nl)
	seqs := make([]Seq, ns)
	for i := range seqs {
		seqs[i] = Seq{LitLen: verifU32(verifName("LitLen", i)), MatchLen: verifU32(verifName("MatchLen", i)),
			Offset: verifU32(verifName("Offset", i)), Aux: verifU32(verifName("Aux", i))}
	}
	lits0 := append([]byte(nil), lits...)
	seqs0 := append([]Seq(nil), seqs...)
	blk := Block{Sequences: seqs, Literals: lits}

	n, k, l, err := b.WriteBlock(blk)

	// caller's block untouched
	same := true
	for i := range lits0 {
		same = verifAnd(same, lits[i] == lits0[i])
	}
	for i := range seqs0 {
		same = verifAnd(same, seqs[i] == seqs0[i])
	}
	verifAssert(same, "WriteBlock: caller's block modified [C05]")
	verifAssert(len(blk.Sequences) == ns && len(blk.Literals) == nl, "WriteBlock: caller's slices resliced [C05]")

	// reference expansion of the first k sequences
	kk := verifConc(k)
	verifAssert(0 <= kk && kk <= ns, "WriteBlock: k out of range [C17]")
	if kk < 0 || kk > ns {
		return
	}
	g := append([]byte(nil), d0...)
	lc := 0 // literals consumed by the reference
	w := b.WindowSize
	streamOff := off0
	for i := 0; i < kk; i++ {
		s := seqs0[i]
		ll := verifConc(int(s.LitLen))
		mm := verifConc(int(s.MatchLen))
		oo := verifConc(int(s.Offset))
		// a consumed sequence must have been well-formed
		verifAssert(ll <= nl-lc, "WriteBlock: sequence with LitLen beyond the literals consumed [C05]")
		if ll > nl-lc {
			return
		}
		av := int(streamOff) + ll
		av = verifIteInt(w < av, w, av)
		verifAssert(!(oo == 0 && mm > 0), "WriteBlock: Offset 0 with MatchLen > 0 consumed [C05]")
		verifAssert(oo <= av, "WriteBlock: Offset beyond window/available bytes consumed [C05]")
		if (oo == 0 && mm > 0) || oo > len(g)+ll {
			verifAssert(false, "WriteBlock: consumed sequence cannot be expanded from the buffered data [C05]")
			return
		}
		g = append(g, lits0[lc:lc+ll]...)
		lc += ll
		if mm > 0 {
			g = zzExpandMatch(g, mm, oo)
		}
		streamOff += int64(ll) + int64(mm)
	}
	if err == nil {
		verifAssert(kk == ns, "WriteBlock: nil error but not all sequences consumed [C04,C17]")
		g = append(g, lits0[lc:]...)
		lc = nl
		verifReach("block-ok")
	} else if kk < ns {
		// the failing sequence: malformed => error is one of the three; rejection is atomic
		s := seqs0[kk]
		rem := nl - lc
		av := int(streamOff) + int(s.LitLen)
		av = verifIteInt(w < av, w, av)
		invalid := verifOr(int64(s.LitLen) > int64(rem), verifOr(verifAnd(s.Offset == 0, s.MatchLen > 0), int(s.Offset) > av))
		wellformedErr := verifOr(err == ErrFullBuffer, err == errMatchLen)
		verifAssert(verifOr(invalid, wellformedErr), "WriteBlock: valid sequence rejected as malformed [C04]")
		verifReach("block-err")
	} else {
		verifAssert(err == ErrFullBuffer, "WriteBlock: trailing literals rejected with an unexpected error [C04]")
	}
	verifAssert(l == lc, "WriteBlock: l is not the number of literal bytes consumed [C17]")
	verifAssert(n == len(g)-len(d0), "WriteBlock: n is not the number of bytes appended [C17]")
	zzDecPost(b, d0, r0, off0, g[len(d0):], "WriteBlock")
	zzDecInv(b, "WriteBlock")
	verifReach("end")
}

// zzH_decWriteBlockReject: the first malformed sequence must be rejected (C05):
// whatever k the call reports, no malformed sequence lies before k.
// (Covered by the per-sequence assertions in zzH_decWriteBlock; this harness adds
// the direct statement for a single sequence and arbitrary state.)
func zzH_decRejectOne() {
	b, d0 := zzDecState()
	nl := verifChoose("nl", verifParam("NL")+1)
	lits := verifBytes("lit", nl)
	s := Seq{LitLen: verifU32("LitLen"), MatchLen: verifU32("MatchLen"), Offset: verifU32("Offset")}
	av := b.Off + int64(s.LitLen)
	av = int64(verifIteInt(int64(b.WindowSize) < av, b.WindowSize, int(av)))
	invalid := verifOr(int64(s.LitLen) > int64(nl), verifOr(verifAnd(s.Offset == 0, s.MatchLen > 0), int64(s.Offset) > av))
	verifAssume(invalid)
	n, k, l, err := b.WriteBlock(Block{Sequences: []Seq{s}, Literals: lits})
	verifAssert(err != nil, "WriteBlock: malformed sequence accepted [C05]")
	verifAssert(verifAnd(k == 0, verifAnd(l == 0, n == 0)), "WriteBlock: malformed first sequence but k,l,n != 0 [C05,C17]")
	verifAssert(len(b.Data) <= len(d0), "WriteBlock: data appended although the sequence was rejected [C05]")
	verifReach("end")
}

// zzH_decInit: base case of the induction. Init/Reset of a DecoderBuffer (fresh
// or used, with any retained capacity) and NewDecoder with any int64
// configuration either fail or establish the representation invariant that all
// step harnesses assume.
func zzH_decInit() {
	var b DecoderBuffer
	if verifChoose("used", 2) == 1 {
		b.Data = verifBytesCap("D", 2, 2+verifChoose("cx", 4))
		b.R, b.Off = 1, 7
		b.WindowSize, b.BufferSize = 1, 3
	}
	cfg := DecoderConfig{WindowSize: verifInt("W"), BufferSize: verifInt("B")}
	err := b.Init(cfg)
	if err == nil {
		verifAssert(0 <= b.WindowSize && b.WindowSize < b.BufferSize, "Init: accepted configuration violates 0 <= WindowSize < BufferSize [C04,C05,C06,C07,C17,C18]")
		verifAssert(len(b.Data) == 0 && b.R == 0 && b.Off == 0, "Init: buffer not empty [C04,C17]")
		zzDecInv(&b, "Init")
		verifReach("accepted")
		w := &zzFWriter{}
		d, err2 := NewDecoder(w, cfg)
		verifAssert(err2 == nil && d != nil, "NewDecoder rejects what DecoderBuffer.Init accepts [C04]")
		if err2 == nil && d != nil {
			verifAssert(0 <= d.buf.WindowSize && d.buf.WindowSize < d.buf.BufferSize, "NewDecoder: accepted configuration violates 0 <= WindowSize < BufferSize [C04,C05,C06,C07,C17,C18]")
		}
	} else {
		// rejected: must be a configuration the documentation excludes
		c := cfg
		c.SetDefaults()
		verifAssert(!(1 <= c.BufferSize && int64(c.BufferSize) <= 1<<32-1 && 0 <= c.WindowSize && c.WindowSize < c.BufferSize), "Init: documented-valid configuration rejected [C04]")
	}
	verifReach("end")
}
