package lz

// Harnesses for the configuration code (C16 config clause, C20). The
// reflection-based field copies, defaults and Verify of the real code are
// executed over the engine's reflect model; encoding/json is a stub codec (the
// JSON text layer is outside the model, see DESIGN.md).

import "encoding/json"

type zzCfgCase struct {
	name string
	mk   func() ParserConfig          // configuration with all fields symbolic
	zero func() ParserConfig          // zero configuration of the same type
	ints func(c ParserConfig) []int   // integer fields in declaration order (nil: wrong dynamic type)
	cost func(c ParserConfig) string  // Cost field ("" if the type has none)
	unm  func(c ParserConfig, p []byte) error // UnmarshalJSON of the type
}

func zzI(name string) int { return verifInt(name) }

func zzCostChoice() string {
	switch verifChoose("cost", 3) {
	case 0:
		return ""
	case 1:
		return "XZCost"
	}
	return "other"
}

func zzCfgCases() []zzCfgCase {
	return []zzCfgCase{
		{"HP", func() ParserConfig {
			return &HPConfig{ShrinkSize: zzI("ShrinkSize"), BufferSize: zzI("BufferSize"), WindowSize: zzI("WindowSize"), BlockSize: zzI("BlockSize"), InputLen: zzI("InputLen"), HashBits: zzI("HashBits")}
		}, func() ParserConfig { return &HPConfig{} }, func(c ParserConfig) []int {
			x, ok := c.(*HPConfig)
			if !ok {
				return nil
			}
			return []int{x.ShrinkSize, x.BufferSize, x.WindowSize, x.BlockSize, x.InputLen, x.HashBits}
		}, func(ParserConfig) string { return "" }, func(c ParserConfig, p []byte) error { return c.(*HPConfig).UnmarshalJSON(p) }},
		{"BHP", func() ParserConfig {
			return &BHPConfig{ShrinkSize: zzI("ShrinkSize"), BufferSize: zzI("BufferSize"), WindowSize: zzI("WindowSize"), BlockSize: zzI("BlockSize"), InputLen: zzI("InputLen"), HashBits: zzI("HashBits")}
		}, func() ParserConfig { return &BHPConfig{} }, func(c ParserConfig) []int {
			x, ok := c.(*BHPConfig)
			if !ok {
				return nil
			}
			return []int{x.ShrinkSize, x.BufferSize, x.WindowSize, x.BlockSize, x.InputLen, x.HashBits}
		}, func(ParserConfig) string { return "" }, func(c ParserConfig, p []byte) error { return c.(*BHPConfig).UnmarshalJSON(p) }},
		{"DHP", func() ParserConfig {
			return &DHPConfig{ShrinkSize: zzI("ShrinkSize"), BufferSize: zzI("BufferSize"), WindowSize: zzI("WindowSize"), BlockSize: zzI("BlockSize"),
				InputLen1: zzI("InputLen1"), HashBits1: zzI("HashBits1"), InputLen2: zzI("InputLen2"), HashBits2: zzI("HashBits2")}
		}, func() ParserConfig { return &DHPConfig{} }, func(c ParserConfig) []int {
			x, ok := c.(*DHPConfig)
			if !ok {
				return nil
			}
			return []int{x.ShrinkSize, x.BufferSize, x.WindowSize, x.BlockSize, x.InputLen1, x.HashBits1, x.InputLen2, x.HashBits2}
		}, func(ParserConfig) string { return "" }, func(c ParserConfig, p []byte) error { return c.(*DHPConfig).UnmarshalJSON(p) }},
		{"BDHP", func() ParserConfig {
			return &BDHPConfig{ShrinkSize: zzI("ShrinkSize"), BufferSize: zzI("BufferSize"), WindowSize: zzI("WindowSize"), BlockSize: zzI("BlockSize"),
				InputLen1: zzI("InputLen1"), HashBits1: zzI("HashBits1"), InputLen2: zzI("InputLen2"), HashBits2: zzI("HashBits2")}
		}, func() ParserConfig { return &BDHPConfig{} }, func(c ParserConfig) []int {
			x, ok := c.(*BDHPConfig)
			if !ok {
				return nil
			}
			return []int{x.ShrinkSize, x.BufferSize, x.WindowSize, x.BlockSize, x.InputLen1, x.HashBits1, x.InputLen2, x.HashBits2}
		}, func(ParserConfig) string { return "" }, func(c ParserConfig, p []byte) error { return c.(*BDHPConfig).UnmarshalJSON(p) }},
		{"BUP", func() ParserConfig {
			return &BUPConfig{ShrinkSize: zzI("ShrinkSize"), BufferSize: zzI("BufferSize"), WindowSize: zzI("WindowSize"), BlockSize: zzI("BlockSize"),
				InputLen: zzI("InputLen"), HashBits: zzI("HashBits"), BucketSize: zzI("BucketSize")}
		}, func() ParserConfig { return &BUPConfig{} }, func(c ParserConfig) []int {
			x, ok := c.(*BUPConfig)
			if !ok {
				return nil
			}
			return []int{x.ShrinkSize, x.BufferSize, x.WindowSize, x.BlockSize, x.InputLen, x.HashBits, x.BucketSize}
		}, func(ParserConfig) string { return "" }, func(c ParserConfig, p []byte) error { return c.(*BUPConfig).UnmarshalJSON(p) }},
		{"GSAP", func() ParserConfig {
			return &GSAPConfig{ShrinkSize: zzI("ShrinkSize"), BufferSize: zzI("BufferSize"), WindowSize: zzI("WindowSize"), BlockSize: zzI("BlockSize"), MinMatchLen: zzI("MinMatchLen")}
		}, func() ParserConfig { return &GSAPConfig{} }, func(c ParserConfig) []int {
			x, ok := c.(*GSAPConfig)
			if !ok {
				return nil
			}
			return []int{x.ShrinkSize, x.BufferSize, x.WindowSize, x.BlockSize, x.MinMatchLen}
		}, func(ParserConfig) string { return "" }, func(c ParserConfig, p []byte) error { return c.(*GSAPConfig).UnmarshalJSON(p) }},
		{"OSAP", func() ParserConfig {
			return &OSAPConfig{ShrinkSize: zzI("ShrinkSize"), BufferSize: zzI("BufferSize"), WindowSize: zzI("WindowSize"), BlockSize: zzI("BlockSize"),
				MinMatchLen: zzI("MinMatchLen"), MaxMatchLen: zzI("MaxMatchLen"), Cost: zzCostChoice()}
		}, func() ParserConfig { return &OSAPConfig{} }, func(c ParserConfig) []int {
			x, ok := c.(*OSAPConfig)
			if !ok {
				return nil
			}
			return []int{x.ShrinkSize, x.BufferSize, x.WindowSize, x.BlockSize, x.MinMatchLen, x.MaxMatchLen}
		}, func(c ParserConfig) string {
			if x, ok := c.(*OSAPConfig); ok {
				return x.Cost
			}
			return ""
		}, func(c ParserConfig, p []byte) error { return c.(*OSAPConfig).UnmarshalJSON(p) }},
	}
}

func zzSameCfg(cs zzCfgCase, a, b ParserConfig, tag string) {
	ia, ib := cs.ints(a), cs.ints(b)
	verifAssert(ib != nil, tag+": result has another dynamic type [C20]")
	if ia == nil || ib == nil {
		return
	}
	same := true
	for i := range ia {
		same = verifAnd(same, ia[i] == ib[i])
	}
	verifAssert(same, tag+": integer fields differ [C20]")
	verifAssert(cs.cost(a) == cs.cost(b), tag+": Cost differs [C20]")
}

// zzH_cfgJSON: ParseJSON(json.Marshal(&cfg)) gives the same type with identical
// fields; a document with another or an unknown Type is rejected.
func zzH_cfgJSON() {
	cases := zzCfgCases()
	cs := cases[verifParam("type")]
	cfg := cs.mk()
	p, err := json.Marshal(cfg)
	verifAssert(err == nil, "json.Marshal of a configuration fails [C20]")
	if err != nil {
		return
	}
	c2, err := ParseJSON(p)
	verifAssert(err == nil && c2 != nil, "ParseJSON rejects the document json.Marshal produced [C20]")
	if err == nil && c2 != nil {
		zzSameCfg(cs, cfg, c2, "ParseJSON(Marshal(cfg))")
		verifReach("roundtrip")
	}
	// the document of this type must be rejected by every other type's UnmarshalJSON
	for i := range cases {
		if i == verifParam("type") {
			continue
		}
		o := cases[i].zero()
		verifAssert(cases[i].unm(o, p) != nil, "UnmarshalJSON accepts a document with a mismatching Type [C20]")
	}
	// unknown Type
	u := parserConfigUnion{Type: "XYZ", BufferSize: 5}
	q, err := json.Marshal(&u)
	if err == nil {
		c3, err := ParseJSON(q)
		verifAssert(err != nil && c3 == nil, "ParseJSON accepts a document with an unknown Type [C20]")
		o := cs.zero()
		verifAssert(cs.unm(o, q) != nil, "UnmarshalJSON accepts a document with an unknown Type [C20]")
	}
	// a second document parsed after the first one must not see anything of it (no state kept between calls)
	z := cs.zero()
	pz, err := json.Marshal(z)
	if err == nil {
		c4, err := ParseJSON(pz)
		verifAssert(err == nil && c4 != nil, "ParseJSON rejects the document of a zero configuration [C20]")
		if err == nil && c4 != nil {
			zzSameCfg(cs, z, c4, "ParseJSON(Marshal(zero cfg)) after another document")
		}
	}
	verifReach("end")
}

// zzH_cfgClone: Clone returns an equal, independent copy.
func zzH_cfgClone() {
	cs := zzCfgCases()[verifParam("type")]
	cfg := cs.mk()
	before := cs.ints(cfg)
	c2 := cfg.Clone()
	zzSameCfg(cs, cfg, c2, "Clone")
	verifAssert(c2 != cfg, "Clone returns the same object [C20]")
	bc := c2.BufConfig()
	bc.BufferSize++
	bc.WindowSize += 3
	c2.SetBufConfig(bc)
	c2.SetDefaults()
	after := cs.ints(cfg)
	same := true
	for i := range before {
		same = verifAnd(same, before[i] == after[i])
	}
	verifAssert(same, "changing the clone changes the original [C20]")
	verifReach("end")
}

// zzH_cfgDefaults: SetDefaults is idempotent and only replaces zero fields;
// BufConfig/SetBufConfig read and write the four size fields.
func zzH_cfgDefaults() {
	cs := zzCfgCases()[verifParam("type")]
	cfg := cs.mk()
	orig := cs.ints(cfg)
	ocost := cs.cost(cfg)
	cfg.SetDefaults()
	d1 := cs.ints(cfg)
	c1 := cs.cost(cfg)
	ok := true
	for i := range orig {
		ok = verifAnd(ok, verifOr(orig[i] == 0, d1[i] == orig[i]))
	}
	verifAssert(ok, "SetDefaults changed a field that was not zero [C20]")
	verifAssert(ocost == "" || c1 == ocost, "SetDefaults changed a Cost that was set [C20]")
	cfg.SetDefaults()
	d2 := cs.ints(cfg)
	same := true
	for i := range d1 {
		same = verifAnd(same, d1[i] == d2[i])
	}
	verifAssert(same && cs.cost(cfg) == c1, "SetDefaults is not idempotent [C20]")
	bc := cfg.BufConfig()
	verifAssert(bc.ShrinkSize == d2[0] && bc.BufferSize == d2[1] && bc.WindowSize == d2[2] && bc.BlockSize == d2[3], "BufConfig does not report the four size fields [C20]")
	verifReach("end")
}

// zzH_cfgNewParser: NewParser succeeds exactly when the defaults-completed
// configuration verifies, never panics, and the parser reports that configuration.
func zzH_cfgNewParser() {
	cs := zzCfgCases()[verifParam("type")]
	cfg := cs.mk()
	// table sizes: 1<<HashBits entries are allocated; keep the case split small
	hbMax := verifParam("hbMax")
	ints := cs.ints(cfg)
	switch cs.name {
	case "HP", "BHP", "BUP":
		verifAssume(ints[5] <= hbMax)
	case "DHP", "BDHP":
		verifAssume(ints[5] <= hbMax && ints[7] <= hbMax)
	}
	if cs.name == "BUP" {
		verifAssume(ints[6] <= 4) // BucketSize: buckets are allocated
	}
	want := cfg.Clone()
	want.SetDefaults()
	verr := want.Verify()
	p, err := cfg.NewParser()
	verifAssert((err == nil) == (verr == nil), "NewParser does not succeed exactly when the defaults-completed configuration verifies [C16]")
	verifAssert((err == nil) == (p != nil), "NewParser returns a parser together with an error, or neither [C16]")
	if err == nil && p != nil {
		zzSameCfg(cs, want, p.ParserConfig(), "ParserConfig() of a new parser vs the defaults-completed configuration")
		bc := p.BufferConfig()
		wb := want.BufConfig()
		verifAssert(bc == wb, "BufferConfig() of a new parser differs from the defaults-completed configuration [C20]")
		// a first use must not panic: empty Parse, tiny Write
		var blk Block
		n, perr := p.Parse(&blk, 0)
		verifAssert(n == 0 && perr == ErrEmptyBuffer, "Parse on a new parser must return 0, ErrEmptyBuffer [C16,C03]")
		verifReach("accepted")
	} else {
		verifReach("rejected")
	}
	verifReach("end")
}
