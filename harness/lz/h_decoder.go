package lz

// IS harnesses for Decoder (C06, C07, C18, also C04/C17 at Decoder level): one
// Decoder call from an arbitrary buffer state with a writer that may accept
// only part of a write or fail.
//
// Ghost reading of a state: the output stream so far is
//   (bytes the writer accepted) ++ Data[R:]
// One call must keep that reading: accepted' ++ Data'[R':] = Data[R:] ++ appended,
// with Data' a suffix of Data ++ appended that still contains the window.

var zzErrWriter = &zzErr{"writer failed"}

const zzWriterLimit = 48

// zzFWriter: contract-abiding io.Writer with up to `faults` short writes; a short
// write returns zzErrWriter. Every call is counted: more than zzWriterLimit calls
// inside one Decoder call means the retry loop does not make progress.
type zzFWriter struct {
	got    []byte
	calls  int
	faults int
	failed int
}

func (w *zzFWriter) Write(p []byte) (int, error) {
	w.calls++
	if w.calls > zzWriterLimit {
		verifFail("nontermination: the writer was called more than 48 times by one Decoder call [C06]")
		verifAssume(false)
	}
	k := len(p)
	if w.faults > 0 && len(p) > 0 {
		k = verifChoose(verifName("wk", w.calls), len(p)+1)
		if k < len(p) {
			w.faults--
		}
	} else if w.faults > 0 {
		// an empty write may fail as well
		if verifChoose(verifName("we", w.calls), 2) == 1 {
			w.faults--
			w.failed++
			return 0, zzErrWriter
		}
	}
	w.got = append(w.got, p[:k]...)
	if k < len(p) {
		w.failed++
		return k, zzErrWriter
	}
	return k, nil
}

func zzDecoderState() (d *Decoder, w *zzFWriter, d0 []byte, r0 int, off0 int64) {
	b, d0 := zzDecState()
	w = &zzFWriter{faults: verifParamOr("WF", 0)}
	d = &Decoder{buf: *b, w: w}
	return d, w, d0, b.R, b.Off
}

// zzDcdPost checks the ghost relation after a Decoder call that appended app.
func zzDcdPost(d *Decoder, w *zzFWriter, d0 []byte, r0 int, off0 int64, app []byte, tag string) {
	b := &d.buf
	total := len(d0) + len(app)
	delta := total - len(b.Data)
	verifAssert(delta >= 0, tag+": buffer longer than old data plus appended bytes [C04,C18]")
	if delta < 0 {
		return
	}
	ng := len(w.got)
	verifAssert(r0+ng <= total, tag+": writer received more than the pending output [C18,C04]")
	if r0+ng > total {
		return
	}
	at := func(j int) byte {
		if j < len(d0) {
			return d0[j]
		}
		return app[j-len(d0)]
	}
	ok := true
	for i := 0; i < ng; i++ {
		ok = verifAnd(ok, w.got[i] == at(r0+i))
	}
	verifAssert(ok, tag+": bytes accepted by the writer are not the next bytes of the reference expansion [C18,C04]")
	verifAssert(delta <= r0+ng, tag+": bytes not yet accepted by the writer were discarded [C18,C04]")
	verifAssert(b.R == r0+ng-delta, tag+": R is not the first byte the writer has not accepted [C18,C04]")
	ok = true
	for i := 0; i < len(b.Data); i++ {
		ok = verifAnd(ok, b.Data[i] == at(delta+i))
	}
	verifAssert(ok, tag+": buffer content differs from the reference expansion [C04,C18]")
	verifAssert(b.Off == off0+int64(len(app)), tag+": Off is not the number of bytes written [C17]")
	verifAssert(verifOr(len(b.Data) >= b.WindowSize, b.Off == int64(len(b.Data))), tag+": window lost [C04]")
	verifAssert(0 <= b.R && b.R <= len(b.Data) && b.WindowSize < b.BufferSize, tag+": buffer invariant broken [C04]")
}

// zzAttainable: the free space of the completely flushed buffer.
func zzAttainable(b *DecoderBuffer) int {
	n := b.BufferSize
	if cap(b.Data) > n {
		n = cap(b.Data)
	}
	k := len(b.Data)
	if k > b.WindowSize {
		k = b.WindowSize
	}
	return n - k
}

// zzDcdErr checks the error of a Decoder call: nil, or the writer's own error
// exactly when the writer failed in this call.
func zzDcdErr(w *zzFWriter, err error, tag string) {
	if w.failed > 0 {
		verifAssert(err == zzErrWriter, tag+": the writer failed but its error was not returned [C18]")
	} else {
		verifAssert(err != zzErrWriter, tag+": writer error reported although the writer did not fail [C18]")
	}
}

func zzH_dcdWriteByte() {
	d, w, d0, r0, off0 := zzDecoderState()
	c := verifU8("c")
	err := d.WriteByte(c)
	zzDcdErr(w, err, "Decoder.WriteByte")
	if err == nil {
		zzDcdPost(d, w, d0, r0, off0, []byte{c}, "Decoder.WriteByte")
	} else {
		verifAssert(err == zzErrWriter, "Decoder.WriteByte: a byte was refused although the writer works [C07,C04]")
		zzDcdPost(d, w, d0, r0, off0, nil, "Decoder.WriteByte(err)")
	}
	verifReach("end")
}

func zzH_dcdWrite() {
	d, w, d0, r0, off0 := zzDecoderState()
	lp := verifChoose("lp", verifParam("LP")+1)
	p := verifBytes("p", lp)
	n, err := d.Write(p)
	zzDcdErr(w, err, "Decoder.Write")
	nn := verifConc(n)
	verifAssert(0 <= nn && nn <= lp, "Decoder.Write: n outside 0..len(p) [C17]")
	if nn < 0 || nn > lp {
		return
	}
	if err == nil {
		verifAssert(nn == lp, "Decoder.Write: nil error but not everything written [C17,C04]")
	} else {
		verifAssert(err == zzErrWriter, "Decoder.Write: data refused although the writer works [C07,C04]")
	}
	zzDcdPost(d, w, d0, r0, off0, p[:nn], "Decoder.Write")
	verifReach("end")
}

func zzH_dcdFlush() {
	d, w, d0, r0, off0 := zzDecoderState()
	err := d.Flush()
	zzDcdErr(w, err, "Decoder.Flush")
	zzDcdPost(d, w, d0, r0, off0, nil, "Decoder.Flush")
	if err == nil {
		verifAssert(d.buf.R == len(d.buf.Data), "Decoder.Flush: nil error but output left in the buffer [C18,C04]")
	}
	verifReach("end")
}

// zzH_dcdWriteBlock: a block of NS sequences / NL literals through the Decoder.
// wf=1: the block is assumed well-formed for the window at the current stream
// position (C07: must be accepted); wf=0: Seq fields range over all of uint32.
func zzH_dcdWriteBlock() {
	d, w, d0, r0, off0 := zzDecoderState()
	wf := verifParamOr("wf", 0)
	ns := verifChoose("ns", verifParam("NS")+1)
	nl := verifChoose("nl", verifParam("NL")+1)
	lits := verifBytes("lit", nl)
	seqs := make([]Seq, ns)
	for i := range seqs {
		seqs[i] = Seq{LitLen: verifU32(verifName("LitLen", i)), MatchLen: verifU32(verifName("MatchLen", i)),
			Offset: verifU32(verifName("Offset", i)), Aux: verifU32(verifName("Aux", i))}
	}
	win := d.buf.WindowSize
	if wf == 1 {
		// well-formed in the sense of C02 for window `win` at stream offset off0
		pos := off0
		lsum := 0
		for i := range seqs {
			s := seqs[i]
			verifAssume(int64(s.LitLen) <= int64(nl-lsum))
			lsum += int(s.LitLen)
			pos += int64(s.LitLen)
			verifAssume(s.Offset >= 1)
			verifAssume(int64(s.Offset) <= int64(win))
			verifAssume(int64(s.Offset) <= pos)
			verifAssume(int64(s.MatchLen) <= int64(verifParam("MM")))
			pos += int64(s.MatchLen)
		}
	}
	lits0 := append([]byte(nil), lits...)
	seqs0 := append([]Seq(nil), seqs...)

	n, k, l, err := d.WriteBlock(Block{Sequences: seqs, Literals: lits})

	zzDcdErr(w, err, "Decoder.WriteBlock")
	kk := verifConc(k)
	ll := verifConc(l)
	verifAssert(0 <= kk && kk <= ns, "Decoder.WriteBlock: k out of range [C17]")
	verifAssert(0 <= ll && ll <= nl, "Decoder.WriteBlock: l out of range [C17]")
	if kk < 0 || kk > ns || ll < 0 || ll > nl {
		return
	}
	// reference expansion of what the call reports as consumed
	g := append([]byte(nil), d0...)
	lc := 0
	streamOff := off0
	kfRegion := false
	for i := 0; i < kk; i++ {
		s := seqs0[i]
		sl := verifConc(int(s.LitLen))
		sm := verifConc(int(s.MatchLen))
		so := verifConc(int(s.Offset))
		verifAssert(sl <= nl-lc, "Decoder.WriteBlock: consumed a sequence with LitLen beyond the literals [C05]")
		if sl > nl-lc {
			return
		}
		av := int(streamOff) + sl
		if win < av {
			av = win
		}
		bad := (so == 0 && sm > 0) || so > av || so > len(g)+sl
		verifAssert(!bad, "Decoder.WriteBlock: consumed a malformed sequence [C05]")
		if bad {
			return
		}
		g = append(g, lits0[lc:lc+sl]...)
		lc += sl
		if sm > 0 {
			g = zzExpandMatch(g, sm, so)
		}
		streamOff += int64(sl) + int64(sm)
	}
	verifAssert(ll >= lc, "Decoder.WriteBlock: l smaller than the literals of the consumed sequences [C17,C18]")
	if ll < lc {
		return
	}
	if ll > lc {
		verifAssert(kk == ns, "Decoder.WriteBlock: trailing literals consumed before all sequences [C17,C18]")
		g = append(g, lits0[lc:ll]...)
	}
	app := g[len(d0):]
	verifAssert(n == len(app), "Decoder.WriteBlock: n is not the number of bytes written [C17]")
	zzDcdPost(d, w, d0, r0, off0, app, "Decoder.WriteBlock")

	if err == nil {
		verifAssert(kk == ns && ll == nl, "Decoder.WriteBlock: nil error but block not consumed completely [C17,C07]")
		verifReach("block-ok")
	} else if err != zzErrWriter && wf == 1 {
		// the block is valid and the writer works: the only accepted refusal is the recorded finding
		// KF-C07-oversize (a sequence larger than the free space of the completely flushed buffer)
		if kk < ns {
			s := seqs0[kk]
			gl := int64(s.LitLen) + int64(s.MatchLen)
			kfRegion = gl > int64(zzAttainable(&d.buf))
		} else {
			kfRegion = false
		}
		if verifParamOr("kf_oversize", 0) == 1 {
			verifAssume(!kfRegion)
		}
		verifAssert(false, "Decoder.WriteBlock: well-formed block refused although the writer works [C07]")
	}
	verifReach("end")
}
