package lz

// Harnesses for C13: a parser after Reset behaves like a new parser of the
// same configuration; parsing is deterministic.

func zzSameBlock(a, b *Block, na, nb int, ea, eb error, tag string) bool {
	verifAssert(na == nb && ea == eb, tag+": n/err of the reset parser differ from those of a new parser [C13]")
	same := len(a.Sequences) == len(b.Sequences) && len(a.Literals) == len(b.Literals)
	verifAssert(same, tag+": block shape of the reset parser differs from that of a new parser [C13]")
	if !same || na != nb || ea != eb {
		return false
	}
	for i := range a.Sequences {
		same = verifAnd(same, a.Sequences[i] == b.Sequences[i])
	}
	for i := range a.Literals {
		same = verifAnd(same, a.Literals[i] == b.Literals[i])
	}
	verifAssert(same, tag+": block content of the reset parser differs from that of a new parser [C13]")
	return true
}

// zzLockstep parses both parsers until the buffer is empty and compares every result.
// With job parameter withNil=1 the first call of every drain is Parse(nil, 0).
func zzLockstep(p, q Parser, limit int, tag string) {
	withNil := verifParamOr("withNil", 0)
	if tag != "Reset" {
		withNil = 0 // only the first drain after the Reset starts with Parse(nil)
	}
	for step := 0; step <= limit; step++ {
		op := 2
		if withNil == 0 || step > 0 {
			op = verifChoose(verifName(tag+" flags", step), 2)
		}
		if op == 2 { // scripted: the first call of the drain skips a block
			na, ea := p.Parse(nil, 0)
			nb, eb := q.Parse(nil, 0)
			verifAssert(na == nb && ea == eb, tag+": Parse(nil) of the reset parser differs from that of a new parser [C13]")
			if ea != nil || eb != nil || na != nb {
				return
			}
			continue
		}
		var ba, bb Block
		na, ea := p.Parse(&ba, op)
		nb, eb := q.Parse(&bb, op)
		if !zzSameBlock(&ba, &bb, na, nb, ea, eb, tag) {
			return
		}
		if ea != nil {
			verifAssert(ea == ErrEmptyBuffer, tag+": unexpected error [C16]")
			return
		}
		if len(ba.Sequences) > 0 {
			verifReach("match")
		}
	}
	verifFail(tag + ": Parse does not drain the buffer [C03,C16]")
}

// zzFreshLike builds a new parser of the same kind and configuration as the
// arbitrary-state parser built by zzMakeParser (tables zero, buffer empty).
func zzFreshLike(kind int, pb *ParserBuffer) (Parser, *ParserBuffer) {
	il := verifParam("inputLen")
	hb := verifParam("hashBits")
	bc := pb.BufConfig
	switch kind {
	case zzHP:
		s := new(hashParser)
		s.ParserBuffer.BufConfig = bc
		if s.hash.init(il, hb) != nil {
			verifAssume(false)
		}
		s.HPConfig = HPConfig{ShrinkSize: bc.ShrinkSize, BufferSize: bc.BufferSize, WindowSize: bc.WindowSize, BlockSize: bc.BlockSize, InputLen: il, HashBits: hb}
		return s, &s.ParserBuffer
	case zzBHP:
		s := new(backwardHashParser)
		s.ParserBuffer.BufConfig = bc
		if s.hash.init(il, hb) != nil {
			verifAssume(false)
		}
		s.BHPConfig = BHPConfig{ShrinkSize: bc.ShrinkSize, BufferSize: bc.BufferSize, WindowSize: bc.WindowSize, BlockSize: bc.BlockSize, InputLen: il, HashBits: hb}
		return s, &s.ParserBuffer
	case zzDHP:
		il2 := verifParam("inputLen2")
		s := new(doubleHashParser)
		s.ParserBuffer.BufConfig = bc
		if s.h1.init(il, hb) != nil || s.h2.init(il2, hb) != nil {
			verifAssume(false)
		}
		s.DHPConfig = DHPConfig{ShrinkSize: bc.ShrinkSize, BufferSize: bc.BufferSize, WindowSize: bc.WindowSize, BlockSize: bc.BlockSize, InputLen1: il, HashBits1: hb, InputLen2: il2, HashBits2: hb}
		return s, &s.ParserBuffer
	case zzBDHP:
		il2 := verifParam("inputLen2")
		s := new(bdhp)
		s.ParserBuffer.BufConfig = bc
		if s.h1.init(il, hb) != nil || s.h2.init(il2, hb) != nil {
			verifAssume(false)
		}
		s.BDHPConfig = BDHPConfig{ShrinkSize: bc.ShrinkSize, BufferSize: bc.BufferSize, WindowSize: bc.WindowSize, BlockSize: bc.BlockSize, InputLen1: il, HashBits1: hb, InputLen2: il2, HashBits2: hb}
		return s, &s.ParserBuffer
	case zzBUP:
		bsz := verifParam("bucketSize")
		s := new(bucketParser)
		s.ParserBuffer.BufConfig = bc
		cfg := bucketConfig{InputLen: il, HashBits: hb, BucketSize: bsz}
		if s.bucketHash.init(&cfg) != nil {
			verifAssume(false)
		}
		s.BUPConfig = BUPConfig{ShrinkSize: bc.ShrinkSize, BufferSize: bc.BufferSize, WindowSize: bc.WindowSize, BlockSize: bc.BlockSize, InputLen: il, HashBits: hb, BucketSize: bsz}
		return s, &s.ParserBuffer
	}
	panic("bad kind")
}

// zzResetIS: hash parser in an ARBITRARY used state (any data, any table
// content: whatever it processed before) is reset and then compared in lockstep
// with a new parser that gets the same calls.
func zzResetIS(kind int) {
	L := verifParam("L")
	N := verifParam("N")
	ld := verifChoose("ld", L+1)
	w := verifChoose("w", ld+1)
	bs := 1 + verifChoose("bs", N+1)
	used, upb, _ := zzMakeParser(kind, ld, w, bs)
	verifAssume(upb.BufferSize == verifParam("PB")) // one buffer size per job: grow() allocations stay concrete
	if wn := verifParamOr("Wn", 0); wn > 0 {
		verifAssume(upb.WindowSize == wn) // the window is not the subject here; a concrete size keeps the offset checks cheap
	}
	verifAssume(upb.ShrinkSize < upb.BufferSize)
	fresh, _ := zzFreshLike(kind, upb)
	nn := verifChoose("nn", N+1)
	mode := verifChoose("mode", 3)
	verifAssume(nn <= upb.BufferSize)
	var e1, e2 error
	switch mode {
	case 0: // Reset(data) with room for the margin: the slice itself becomes the buffer
		d1 := verifBytesCap("X", nn, nn+7)
		d2 := append(make([]byte, 0, nn+7), d1[:nn+7]...)[:nn]
		e1, e2 = used.Reset(d1), fresh.Reset(d2)
	case 1: // Reset(data) without margin: copied into the parser's own (used / new) buffer
		d1 := verifBytesCap("X", nn, nn)
		e1, e2 = used.Reset(d1), fresh.Reset(append([]byte(nil), d1...)[:nn:nn])
	case 2: // Reset(nil) followed by Write, as WrappedParser.Reset does
		d1 := verifBytes("X", nn)
		e1, e2 = used.Reset(nil), fresh.Reset(nil)
		if e1 == nil && e2 == nil {
			n1, w1 := used.Write(d1)
			n2, w2 := fresh.Write(d1)
			verifAssert(n1 == n2 && w1 == w2, "Write after Reset(nil) differs from Write on a new parser [C13]")
		}
	}
	verifAssert(e1 == nil && e2 == nil, "Reset fails although the data fits [C13,C16]")
	if e1 != nil || e2 != nil {
		return
	}
	zzLockstep(used, fresh, nn+1, "Reset")
	// more data after the first drain: entries made for the end of the first fill meet the new bytes
	if n2 := verifParamOr("N2", 0); n2 > 0 {
		d2 := verifBytes("Y", n2)
		n1, w1 := used.Write(d2)
		m1, v1 := fresh.Write(d2)
		verifAssert(n1 == m1 && w1 == v1, "second Write after Reset differs from a new parser [C13]")
		if w1 == nil && v1 == nil {
			zzLockstep(used, fresh, n2+1, "Reset, second fill")
		}
	}
	verifReach("end")
}

func zzH_resetHP()   { zzResetIS(zzHP) }
func zzH_resetBHP()  { zzResetIS(zzBHP) }
func zzH_resetDHP()  { zzResetIS(zzDHP) }
func zzH_resetBDHP() { zzResetIS(zzBDHP) }
func zzH_resetBUP()  { zzResetIS(zzBUP) }

// zzSapReset: GSAP/OSAP with a real prior history (fill, parse, optionally
// Shrink, optionally a second fill), then Reset, vs. a new parser.
func zzSapReset(kind int) {
	N := verifParam("N")
	k := verifParam("k")
	pre := verifParam("pre") // 0: Write(a) Parse*; 1: ... Shrink; 2: Write(a) Parse(one block) only; 3: Write(a1) Parse* Write(a2) Parse*
	mode := verifParam("mode")
	stream := zzStream(N)
	zzOrderType(stream)
	c := zzSapConfig(kind)
	used, upb := zzNewSap(c)
	fresh, _ := zzNewSap(c)
	a, b := stream[:k], stream[k:]
	fill := func(x []byte, tag string) {
		n, err := used.Write(x)
		verifAssume(err == nil && n == len(x))
		for step := 0; step <= len(x); step++ {
			var blk Block
			pf := 0
			if verifParamOr("preFlags", 0) == 1 {
				pf = verifChoose(verifName(tag, step), 2)
			}
			if _, err := used.Parse(&blk, pf); err != nil || pre == 2 {
				break
			}
		}
	}
	if pre == 3 {
		// two fills without Shrink: the suffix structures are rebuilt with a parse position > 0
		h := len(a) - 1
		fill(a[:h], "pflagsA")
		fill(a[h:], "pflagsB")
	} else {
		fill(a, "pflags")
	}
	if pre == 1 {
		used.Shrink()
	}
	_ = upb
	var e1, e2 error
	if mode == 0 {
		e1, e2 = used.Reset(b), fresh.Reset(append([]byte(nil), b...))
	} else {
		e1, e2 = used.Reset(nil), fresh.Reset(nil)
		if e1 == nil && e2 == nil {
			n1, w1 := used.Write(b)
			n2, w2 := fresh.Write(b)
			verifAssert(n1 == n2 && w1 == w2, "Write after Reset(nil) differs from Write on a new parser [C13]")
		}
	}
	verifAssert(e1 == nil && e2 == nil, "Reset fails although the data fits [C13,C16]")
	if e1 != nil || e2 != nil {
		return
	}
	zzLockstep(used, fresh, len(b)+1, "Reset")
	verifReach("end")
}

func zzH_resetGSAP() { zzSapReset(zzGSAP) }
func zzH_resetOSAP() { zzSapReset(zzOSAP) }
