package lz

// IS harnesses for the five hash parsers (C01, C02, C03, C14, C19): one Parse
// call from an arbitrary parser state. The hash tables are completely
// arbitrary (every entry a pair of fresh 32-bit values): Parse has to be correct
// for any table content because candidates are re-verified against the bytes,
// so one symbolic Parse covers every Write/Shrink/Reset/Parse history that
// could have produced the table.

const (
	zzHP = iota
	zzBHP
	zzDHP
	zzBDHP
	zzBUP
)

// zzBuf builds an arbitrary ParserBuffer: ld data bytes plus the 7 byte margin
// (arbitrary bytes as well), parse position w, arbitrary Off and sizes.
func zzBuf(pb *ParserBuffer, ld, w, bs int) {
	pb.Data = verifBytesCap("D", ld, ld+7)
	pb.W = w
	pb.Off = verifInt64("Off")
	verifAssume(pb.Off >= 0)
	verifAssume(pb.Off <= 1<<40)
	pb.BlockSize = bs
	pb.WindowSize = verifInt("WindowSize")
	verifAssume(pb.WindowSize >= 1)
	verifAssume(pb.WindowSize <= 1<<32-8)
	pb.BufferSize = verifInt("BufferSize")
	verifAssume(pb.BufferSize >= ld)
	verifAssume(pb.BufferSize >= 1)
	verifAssume(pb.BufferSize <= 1<<32-8)
	pb.ShrinkSize = verifInt("ShrinkSize")
	verifAssume(pb.ShrinkSize >= 0)
	verifAssume(pb.ShrinkSize <= pb.BufferSize)
}

func zzArbHash(h *hash, name string, inputLen, hashBits int) {
	if err := h.init(inputLen, hashBits); err != nil {
		verifFail("hash.init rejects an accepted configuration [C16]")
		return
	}
	for i := range h.table {
		h.table[i] = hashEntry{pos: verifU32(verifName(name+".pos", i)), value: verifU32(verifName(name+".val", i))}
	}
}

// zzMakeParser builds parser `kind` in an arbitrary state.
func zzMakeParser(kind, ld, w, bs int) (p Parser, pb *ParserBuffer, minMatch int) {
	il := verifParam("inputLen")
	hb := verifParam("hashBits")
	minMatch = 3
	if il < 3 {
		minMatch = il
	}
	switch kind {
	case zzHP:
		s := new(hashParser)
		zzBuf(&s.ParserBuffer, ld, w, bs)
		zzArbHash(&s.hash, "T", il, hb)
		s.HPConfig = HPConfig{ShrinkSize: s.ParserBuffer.ShrinkSize, BufferSize: s.ParserBuffer.BufferSize, WindowSize: s.ParserBuffer.WindowSize, BlockSize: s.ParserBuffer.BlockSize, InputLen: il, HashBits: hb}
		return s, &s.ParserBuffer, minMatch
	case zzBHP:
		s := new(backwardHashParser)
		zzBuf(&s.ParserBuffer, ld, w, bs)
		zzArbHash(&s.hash, "T", il, hb)
		s.BHPConfig = BHPConfig{ShrinkSize: s.ParserBuffer.ShrinkSize, BufferSize: s.ParserBuffer.BufferSize, WindowSize: s.ParserBuffer.WindowSize, BlockSize: s.ParserBuffer.BlockSize, InputLen: il, HashBits: hb}
		return s, &s.ParserBuffer, minMatch
	case zzDHP:
		il2 := verifParam("inputLen2")
		s := new(doubleHashParser)
		zzBuf(&s.ParserBuffer, ld, w, bs)
		zzArbHash(&s.h1, "T1", il, hb)
		zzArbHash(&s.h2, "T2", il2, hb)
		s.DHPConfig = DHPConfig{ShrinkSize: s.ParserBuffer.ShrinkSize, BufferSize: s.ParserBuffer.BufferSize, WindowSize: s.ParserBuffer.WindowSize, BlockSize: s.ParserBuffer.BlockSize,
			InputLen1: il, HashBits1: hb, InputLen2: il2, HashBits2: hb}
		return s, &s.ParserBuffer, minMatch
	case zzBDHP:
		il2 := verifParam("inputLen2")
		s := new(bdhp)
		zzBuf(&s.ParserBuffer, ld, w, bs)
		zzArbHash(&s.h1, "T1", il, hb)
		zzArbHash(&s.h2, "T2", il2, hb)
		s.BDHPConfig = BDHPConfig{ShrinkSize: s.ParserBuffer.ShrinkSize, BufferSize: s.ParserBuffer.BufferSize, WindowSize: s.ParserBuffer.WindowSize, BlockSize: s.ParserBuffer.BlockSize,
			InputLen1: il, HashBits1: hb, InputLen2: il2, HashBits2: hb}
		return s, &s.ParserBuffer, minMatch
	case zzBUP:
		bsz := verifParam("bucketSize")
		s := new(bucketParser)
		zzBuf(&s.ParserBuffer, ld, w, bs)
		cfg := bucketConfig{InputLen: il, HashBits: hb, BucketSize: bsz}
		if err := s.bucketHash.init(&cfg); err != nil {
			verifFail("bucketHash.init rejects an accepted configuration [C16]")
		}
		for i := range s.buckets {
			s.buckets[i] = bucketEntry{pos: verifU32(verifName("B.pos", i)), val: verifU32(verifName("B.val", i))}
		}
		for i := range s.indexes {
			x := verifU8(verifName("B.idx", i))
			verifAssume(int(x) < bsz)
			s.indexes[i] = x
		}
		s.BUPConfig = BUPConfig{ShrinkSize: s.ParserBuffer.ShrinkSize, BufferSize: s.ParserBuffer.BufferSize, WindowSize: s.ParserBuffer.WindowSize, BlockSize: s.ParserBuffer.BlockSize,
			InputLen: il, HashBits: hb, BucketSize: bsz}
		return s, &s.ParserBuffer, minMatch
	}
	panic("bad kind")
}

// zzCheckBlock checks one Parse result against the reference LZ77 expander and
// the well-formedness / accounting / maximality clauses.
//
//	data: buffer content before the call (unchanged by Parse), w: parse position before
//	maximal: check right-maximality (all but OSAP); backward: BHP/BDHP clause
func zzCheckBlock(tag string, data []byte, w int, off int64, windowSize, blockSize int, blk *Block, n int, err error, flags int,
	minMatch, maxMatch int, maximal, backward bool, wAfter int) {
	unparsed := len(data) - w
	if unparsed == 0 {
		verifAssert(err == ErrEmptyBuffer, tag+": no data but err != ErrEmptyBuffer [C03]")
		verifAssert(n == 0, tag+": ErrEmptyBuffer with n != 0 [C03]")
		verifAssert(len(blk.Sequences) == 0 && len(blk.Literals) == 0, tag+": ErrEmptyBuffer but block not emptied [C03]")
		verifAssert(wAfter == w, tag+": W moved on ErrEmptyBuffer [C03]")
		return
	}
	verifAssert(err == nil, tag+": error although data is buffered [C03,C16]")
	nn := verifConc(n)
	blockEnd := w + blockSize
	if unparsed < blockSize {
		blockEnd = w + unparsed
	}
	verifAssert(1 <= nn && w+nn <= blockEnd, tag+": n outside 1..min(BlockSize, unparsed) [C03,C16]")
	verifAssert(wAfter == w+nn, tag+": W not advanced by n [C03]")
	if nn < 1 || w+nn > blockEnd {
		return
	}
	// reference expansion with data[:w] as history
	g := append([]byte(nil), data[:w]...)
	lc := 0
	wf := true  // well-formedness (C02)
	mx := true  // maximality (C19)
	for i := range blk.Sequences {
		s := blk.Sequences[i]
		ll := verifConc(int(s.LitLen))
		mm := verifConc(int(s.MatchLen))
		oo := int(s.Offset)
		verifAssert(ll <= len(blk.Literals)-lc, tag+": LitLen claims more literals than the block carries [C02]")
		if ll > len(blk.Literals)-lc {
			return
		}
		g = append(g, blk.Literals[lc:lc+ll]...)
		lc += ll
		q := len(g) // buffer position of the match
		wf = verifAnd(wf, oo >= 1)
		wf = verifAnd(wf, oo <= windowSize)
		wf = verifAnd(wf, int64(oo) <= off+int64(q))
		wf = verifAnd(wf, mm >= minMatch)
		if maxMatch > 0 {
			wf = verifAnd(wf, mm <= maxMatch)
		}
		wf = verifAnd(wf, s.Aux == 0)
		// the match source must lie in the buffered data for the parser to know it
		verifAssertNow(verifAnd(oo >= 1, oo <= q), tag+": match source outside the buffered data [C01,C02]")
		verifAssert(q+mm <= blockEnd, tag+": match runs past the block end [C01,C03]")
		if q+mm > blockEnd {
			return
		}
		for t := 0; t < mm; t++ {
			g = append(g, g[len(g)-oo])
		}
		if maximal && q+mm < blockEnd {
			mx = verifAnd(mx, data[q+mm] != data[q+mm-oo])
		}
		if backward && ll > 0 {
			// the literal in front of the match must not be extendable backwards
			mx = verifAnd(mx, verifOr(q-1-oo < 0, data[q-1] != data[verifIteInt(q-1-oo < 0, 0, q-1-oo)]))
		}
	}
	verifAssert(wf, tag+": sequence not well-formed (Offset/MatchLen/Aux range) [C02]")
	if flags&NoTrailingLiterals != 0 && len(blk.Sequences) > 0 {
		verifAssert(lc == len(blk.Literals), tag+": NoTrailingLiterals but the block carries trailing literals [C03]")
	} else {
		g = append(g, blk.Literals[lc:]...)
		if flags == 0 {
			verifAssert(int64(nn) == blk.Len(), tag+": n != Block.Len() [C03]")
		}
	}
	verifAssert(len(g) == w+nn, tag+": block does not represent n bytes [C01,C03]")
	if len(g) != w+nn {
		return
	}
	ok := true
	for i := w; i < w+nn; i++ {
		ok = verifAnd(ok, g[i] == data[i])
	}
	verifAssert(ok, tag+": expansion differs from the input bytes [C01]")
	verifAssert(mx, tag+": match is not maximal [C19]")
}

// zzParseIS runs one Parse(&blk, flags) on parser `kind` in an arbitrary state.
func zzParseIS(kind int, backward bool) {
	L := verifParam("L")
	ld := verifChoose("ld", L+1)
	w := verifChoose("w", ld+1)
	bs := 1 + verifChoose("bs", ld-w+1) // BlockSize 1..unparsed+1
	flags := verifChoose("flags", 2)    // 0 or NoTrailingLiterals
	p, pb, minMatch := zzMakeParser(kind, ld, w, bs)
	data := append([]byte(nil), pb.Data...)
	off, ws := pb.Off, pb.WindowSize
	var blk Block
	// the caller may pass a used block: Parse must overwrite it
	blk.Literals = append(blk.Literals, 0xAA)
	blk.Sequences = append(blk.Sequences, Seq{LitLen: 1, MatchLen: 9, Offset: 9, Aux: 9})
	n, err := p.Parse(&blk, flags)
	same := len(pb.Data) == ld
	for i := 0; i < ld && i < len(pb.Data); i++ {
		same = verifAnd(same, pb.Data[i] == data[i])
	}
	verifAssert(same, "Parse modified the buffered data [C01,C15]")
	verifAssert(pb.Off == off, "Parse changed Off [C01,C15]")
	zzCheckBlock("Parse", data, w, off, ws, bs, &blk, n, err, flags, minMatch, 0, true, backward, pb.W)
	if len(blk.Sequences) > 0 {
		verifReach("match")
	}
	verifReach("end")
}

func zzH_parseHP()   { zzParseIS(zzHP, false) }
func zzH_parseBHP()  { zzParseIS(zzBHP, true) }
func zzH_parseDHP()  { zzParseIS(zzDHP, false) }
func zzH_parseBDHP() { zzParseIS(zzBDHP, true) }
func zzH_parseBUP()  { zzParseIS(zzBUP, false) }

// zzParseNilIS: Parse(nil, flags) from an arbitrary state, then a normal Parse
// whose block must be correct for a decoder that got the skipped bytes verbatim (C14).
func zzParseNilIS(kind int, backward bool) {
	L := verifParam("L")
	ld := verifChoose("ld", L+1)
	w := verifChoose("w", ld+1)
	bs := 1 + verifChoose("bs", ld-w+1)
	p, pb, minMatch := zzMakeParser(kind, ld, w, bs)
	data := append([]byte(nil), pb.Data...)
	off, ws := pb.Off, pb.WindowSize
	n, err := p.Parse(nil, verifChoose("flags", 2))
	want := ld - w
	if bs < want {
		want = bs
	}
	if want == 0 {
		verifAssert(err == ErrEmptyBuffer, "Parse(nil): no data but err != ErrEmptyBuffer [C14]")
		verifAssert(n == 0, "Parse(nil): ErrEmptyBuffer with n != 0 [C14]")
	} else {
		verifAssert(err == nil, "Parse(nil): error although data is buffered [C14]")
		verifAssert(n == want, "Parse(nil): n != min(BlockSize, unparsed) [C14]")
	}
	verifAssert(pb.W == w+want, "Parse(nil): W not advanced by n [C14]")
	w2 := verifConc(pb.W)
	if w2 != w+want {
		return
	}
	// the next block: correct for a decoder holding data[:w2] verbatim
	var blk Block
	n2, err2 := p.Parse(&blk, 0)
	zzCheckBlock("Parse after Parse(nil) [C14]", data, w2, off, ws, bs, &blk, n2, err2, 0, minMatch, 0, true, backward, pb.W)
	if len(blk.Sequences) > 0 && int(blk.Sequences[0].LitLen) == 0 {
		verifReach("match-after-skip")
	}
	verifReach("end")
}

func zzH_parseNilHP()   { zzParseNilIS(zzHP, false) }
func zzH_parseNilBHP()  { zzParseNilIS(zzBHP, true) }
func zzH_parseNilDHP()  { zzParseNilIS(zzDHP, false) }
func zzH_parseNilBDHP() { zzParseNilIS(zzBDHP, true) }
func zzH_parseNilBUP()  { zzParseNilIS(zzBUP, false) }

// zzShrinkIS: Shrink on parser `kind` in an arbitrary state, then one Parse.
// Shrink must discard exactly delta = max(0, W-ShrinkSize) oldest bytes, keep the
// representation invariant of the search structure (table lengths, bucket
// indexes below BucketSize) and leave a state from which Parse is still correct.
func zzShrinkIS(kind int, backward bool) {
	L := verifParam("L")
	ld := verifChoose("ld", L+1)
	w := verifChoose("w", ld+1)
	bs := 1 + verifChoose("bs", ld-w+1)
	p, pb, minMatch := zzMakeParser(kind, ld, w, bs)
	verifAssume(pb.ShrinkSize < pb.BufferSize)
	data := append([]byte(nil), pb.Data...)
	off0 := pb.Off
	delta := p.Shrink()
	want := w - pb.ShrinkSize
	if want < 0 {
		want = 0
	}
	verifAssert(delta == want, "Shrink: delta is not max(0, W-ShrinkSize) [C15]")
	dd := verifConc(delta)
	if dd != want || dd < 0 || dd > ld {
		return
	}
	verifAssert(pb.W == w-dd && pb.Off == off0+int64(dd) && len(pb.Data) == ld-dd, "Shrink: W, Off or len(Data) not moved by delta [C15]")
	same := len(pb.Data) == ld-dd
	for i := 0; i < ld-dd && i < len(pb.Data); i++ {
		same = verifAnd(same, pb.Data[i] == data[dd+i])
	}
	verifAssert(same, "Shrink: retained bytes are not the newest bytes [C15,C01]")
	verifAssert(verifOr(len(pb.Data) == 0, cap(pb.Data) >= len(pb.Data)+7), "Shrink: 7-byte margin lost [C15,C16]")
	switch s := p.(type) {
	case *hashParser:
		verifAssert(len(s.table) == 1<<uint(verifParam("hashBits")), "Shrink: hash table resized [C16]")
	case *bucketParser:
		ok := true
		for i := range s.indexes {
			ok = verifAnd(ok, int(s.indexes[i]) < s.bucketSize)
		}
		verifAssert(ok, "Shrink: bucket index outside the bucket [C16]")
	}
	if dd > 0 {
		verifReach("discarded")
	}
	// the parser must still parse correctly
	data2 := append([]byte(nil), pb.Data...)
	w2, off2 := pb.W, pb.Off
	var blk Block
	flags := verifChoose("flags", 2)
	n, err := p.Parse(&blk, flags)
	zzCheckBlock("Parse after Shrink", data2, w2, off2, pb.WindowSize, bs, &blk, n, err, flags, minMatch, 0, true, backward, pb.W)
	verifReach("end")
}

func zzH_shrinkHP()   { zzShrinkIS(zzHP, false) }
func zzH_shrinkBHP()  { zzShrinkIS(zzBHP, true) }
func zzH_shrinkDHP()  { zzShrinkIS(zzDHP, false) }
func zzH_shrinkBDHP() { zzShrinkIS(zzBDHP, true) }
func zzH_shrinkBUP()  { zzShrinkIS(zzBUP, false) }
