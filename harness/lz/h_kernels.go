package lz

// UK harnesses: leaf kernels against three-line references.

// zzH_lcp: lcp(a,b) == length of the longest common prefix, all byte values,
// every pair of lengths up to the parameter n.
func zzH_lcp() {
	n := verifParam("n")
	la := verifChoose("la", n+1)
	lb := verifChoose("lb", n+1)
	a := verifBytes("a", la)
	b := verifBytes("b", lb)
	got := lcp(a, b)
	ok := true
	want := 0
	for i := 0; i < la && i < lb; i++ {
		ok = verifAnd(ok, a[i] == b[i])
		want += verifB2I(ok)
	}
	verifReach("lcp-done")
	verifAssert(got == want, "lcp differs from reference")
}
