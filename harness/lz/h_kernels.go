package lz

// UK harnesses: leaf kernels against three-line references.

// zzH_lcp: lcp(a,b) == length of the longest common prefix, all byte values,
// every pair of lengths up to the parameter n.
func zzH_lcp() {
	n := verifParam("n")
	la := verifChoose("la", n+1)
	lb := verifChoose("lb", n+1)
	a := verifBytes("a", la)
	b := verifBytes("b", lb)
	got := lcp(a, b)
	ok := true
	want := 0
	for i := 0; i < la && i < lb; i++ {
		ok = verifAnd(ok, a[i] == b[i])
		want += verifB2I(ok)
	}
	verifReach("end")
	verifAssert(got == want, "lcp differs from reference [C01,C12,C19]")
}

// zzH_lcs: lcs(a,b) == length of the longest common suffix.
func zzH_lcs() {
	n := verifParam("n")
	la := verifChoose("la", n+1)
	lb := verifChoose("lb", n+1)
	a := verifBytes("a", la)
	b := verifBytes("b", lb)
	got := lcs(a, b)
	ok := true
	want := 0
	for i := 1; i <= la && i <= lb; i++ {
		ok = verifAnd(ok, a[la-i] == b[lb-i])
		want += verifB2I(ok)
	}
	verifReach("end")
	verifAssert(got == want, "lcs differs from reference [C19]")
}

// zzH_getLE64: getLE64(p) == little-endian value of the first min(8,len) bytes.
func zzH_getLE64() {
	n := verifChoose("n", 11)
	p := verifBytesCap("p", n, n+verifChoose("cx", 3))
	got := getLE64(p)
	var want uint64
	for i := 0; i < n && i < 8; i++ {
		want |= uint64(p[i]) << (8 * uint(i))
	}
	verifReach("end")
	verifAssert(got == want, "getLE64 differs from reference [C01,C19]")
}

// zzH_xzcost: XZCost is non-decreasing in the offset for a fixed match length
// (so the nearest occurrence is the cheapest one, which OSAP's edge closure relies on).
func zzH_xzcost() {
	m := verifU32("m")
	o1 := verifU32("o1")
	o2 := verifU32("o2")
	verifAssume(m >= 2)
	verifAssume(1 <= o1 && o1 <= o2)
	verifReach("end")
	verifAssert(XZCost(m, o1) <= XZCost(m, o2), "XZCost decreases with a larger offset [C11]")
}
