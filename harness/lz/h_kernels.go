package lz

// UK harnesses: leaf kernels against three-line references.

// zzH_lcp: lcp(a,b) == length of the longest common prefix, all byte values,
// every pair of lengths up to the parameter n.
func zzH_lcp() {
	n := verifParam("n")
	la := verifChoose("la", n+1)
	lb := verifChoose("lb", n+1)
	a := verifBytes("a", la)
	b := verifBytes("b", lb)
	got := lcp(a, b)
	ok := true
	want := 0
	for i := 0; i < la && i < lb; i++ {
		ok = verifAnd(ok, a[i] == b[i])
		want += verifB2I(ok)
	}
	verifReach("end")
	verifAssert(got == want, "lcp differs from reference [C01,C12,C19]")
}

// zzH_lcs: lcs(a,b) == length of the longest common suffix.
func zzH_lcs() {
	n := verifParam("n")
	la := verifChoose("la", n+1)
	lb := verifChoose("lb", n+1)
	a := verifBytes("a", la)
	b := verifBytes("b", lb)
	got := lcs(a, b)
	ok := true
	want := 0
	for i := 1; i <= la && i <= lb; i++ {
		ok = verifAnd(ok, a[la-i] == b[lb-i])
		want += verifB2I(ok)
	}
	verifReach("end")
	verifAssert(got == want, "lcs differs from reference [C19]")
}

// zzH_getLE64: getLE64(p) == little-endian value of the first min(8,len) bytes.
func zzH_getLE64() {
	n := verifChoose("n", 11)
	p := verifBytesCap("p", n, n+verifChoose("cx", 3))
	got := getLE64(p)
	var want uint64
	for i := 0; i < n && i < 8; i++ {
		want |= uint64(p[i]) << (8 * uint(i))
	}
	verifReach("end")
	verifAssert(got == want, "getLE64 differs from reference [C01,C19]")
}

// zzH_xzcost: XZCost is non-decreasing in the offset for a fixed match length
// (so the nearest occurrence is the cheapest one, which OSAP's edge closure relies on).
func zzH_xzcost() {
	m := verifU32("m")
	o1 := verifU32("o1")
	o2 := verifU32("o2")
	verifAssume(m >= 2)
	verifAssume(1 <= o1 && o1 <= o2)
	verifReach("end")
	verifAssert(XZCost(m, o1) <= XZCost(m, o2), "XZCost decreases with a larger offset [C11]")
}

// zzH_bitset: the bitset GSAP uses as its search set, against a set model: a
// first group of inserts, clear (the backing array is kept), a second group of
// inserts (growth to the right and, in place, to the left), then memberBefore /
// memberAfter at an arbitrary position. This is the call pattern of gsap.sort().
func zzH_bitset() {
	const U = 192 // three words
	var b bitset
	n1 := verifChoose("n1", 3)
	for i := 0; i < n1; i++ {
		x := verifInt(verifName("x", i))
		verifAssume(0 <= x && x < U)
		b.insert(x)
	}
	b.clear()
	n2 := verifChoose("n2", 4)
	ys := make([]int, n2)
	for i := range ys {
		ys[i] = verifInt(verifName("y", i))
		verifAssume(0 <= ys[i] && ys[i] < U)
		b.insert(ys[i])
	}
	q := verifInt("q")
	verifAssume(0 <= q && q < U)
	// set model: the members are exactly the ys
	wantB, okB := -1, false
	wantA, okA := U, false
	for i := range ys {
		isB := ys[i] < q
		wantB = verifIteInt(verifAnd(isB, ys[i] > wantB), ys[i], wantB)
		okB = verifOr(okB, isB)
		isA := ys[i] > q
		wantA = verifIteInt(verifAnd(isA, ys[i] < wantA), ys[i], wantA)
		okA = verifOr(okA, isA)
	}
	gotB, gokB := b.memberBefore(q)
	gotA, gokA := b.memberAfter(q)
	verifAssert(gokB == okB && verifImplies(okB, gotB == wantB), "bitset.memberBefore differs from the set model (members lost or stale after clear/regrowth) [C12,C13]")
	verifAssert(gokA == okA && verifImplies(okA, gotA == wantA), "bitset.memberAfter differs from the set model (members lost or stale after clear/regrowth) [C12,C13]")
	verifReach("end")
}
