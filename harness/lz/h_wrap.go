package lz

// Harnesses for Wrap / WrappedParser (C08).

import "io"

// zzExpandBlock appends the reference LZ77 expansion of blk to g; ok=false if
// the block is not expandable (LitLen beyond the literals, offset outside g).
func zzExpandBlock(g []byte, blk *Block, tag string) ([]byte, bool) {
	lc := 0
	for i := range blk.Sequences {
		s := blk.Sequences[i]
		ll := verifConc(int(s.LitLen))
		mm := verifConc(int(s.MatchLen))
		oo := verifConc(int(s.Offset))
		if ll > len(blk.Literals)-lc {
			verifFail(tag + ": LitLen claims more literals than the block carries [C02,C08]")
			return g, false
		}
		g = append(g, blk.Literals[lc:lc+ll]...)
		lc += ll
		if oo < 1 || oo > len(g) {
			verifFail(tag + ": match source outside the bytes delivered so far [C01,C08]")
			return g, false
		}
		for t := 0; t < mm; t++ {
			g = append(g, g[len(g)-oo])
		}
	}
	g = append(g, blk.Literals[lc:]...)
	return g, true
}

// zzH_wrapStep: one WrappedParser.Parse from an arbitrary HP state with a
// reader that chunks arbitrarily and may fail (IS over the ghost relation
// delivered ++ Data[W:] ++ future reads = stream).
func zzH_wrapStep() {
	L := verifParam("L")
	ld := verifChoose("ld", L+1)
	w := verifChoose("w", ld+1)
	bs := 1 + verifChoose("bs", verifParam("BS"))
	flags := verifChoose("flags", 2)
	p, pb, _ := zzMakeParser(zzHP, ld, w, bs)
	verifAssume(pb.BufferSize <= verifParam("PB"))
	verifAssume(pb.BufConfig.Verify() == nil) // the configurations the real Verify accepts, whatever they are
	data0 := append([]byte(nil), pb.Data...)
	off0 := pb.Off
	r := &zzReader{max: verifParam("RD")}
	wp := Wrap(r, p)
	var blk Block
	n, err := wp.Parse(&blk, flags)

	pending := append(append([]byte(nil), data0[w:]...), r.out...)
	nn := verifConc(n)
	if err != nil {
		verifAssert(nn == 0, "Wrap: error with n != 0 [C08]")
		verifAssert(err == io.EOF || err == zzErrReader, "Wrap: undocumented error [C08,C16]")
		verifAssert(r.errs > 0 && err == r.lastErr, "Wrap: error is not the one the reader produced [C08]")
		verifAssert(len(pending) == 0, "Wrap: reader error or EOF returned while bytes read before it are still undelivered [C08]")
		verifAssert(len(pb.Data) == pb.W, "Wrap: error returned with unparsed data in the buffer [C08]")
		verifReach("err")
		verifReach("end")
		return
	}
	verifAssert(1 <= nn && nn <= len(pending) && nn <= bs, "Wrap: n outside 1..min(BlockSize, pending) [C08,C03]")
	if nn < 1 || nn > len(pending) {
		return
	}
	g, ok := zzExpandBlock(append([]byte(nil), data0[:w]...), &blk, "Wrap")
	if !ok {
		return
	}
	if flags == 0 {
		verifAssert(len(g) == w+nn, "Wrap: block does not represent n bytes [C08,C03]")
	}
	if len(g) != w+nn {
		verifAssert(flags != 0, "Wrap: block length differs from n [C08,C03]")
		return
	}
	same := true
	for i := 0; i < nn; i++ {
		same = verifAnd(same, g[w+i] == pending[i])
	}
	verifAssert(same, "Wrap: block does not expand to the next bytes of the reader's stream [C08,C01]")
	// what is left in the buffer is exactly the rest of what was read: no loss, no duplication
	rest := len(pb.Data) - pb.W
	verifAssert(rest == len(pending)-nn, "Wrap: bytes lost or duplicated between reader and parser [C08]")
	if rest == len(pending)-nn {
		same = true
		for i := 0; i < rest; i++ {
			same = verifAnd(same, pb.Data[pb.W+i] == pending[nn+i])
		}
		verifAssert(same, "Wrap: unparsed buffer content is not the rest of the reader's stream [C08]")
	}
	// absolute offsets stay consistent: Off + W = stream position of the parse head
	verifAssert(pb.Off+int64(pb.W) == off0+int64(w)+int64(nn), "Wrap: Off+W is not the stream position [C08,C15]")
	if len(r.out) > 0 {
		verifReach("refilled")
	}
	verifReach("end")
}

// zzStreamReader delivers a fixed stream in chunks chosen by the engine; the
// last chunk may come together with io.EOF.
type zzStreamReader struct {
	data    []byte
	pos     int
	calls   int
	oneShot bool
	name    string
}

func (r *zzStreamReader) Read(p []byte) (int, error) {
	r.calls++
	rem := len(r.data) - r.pos
	if rem == 0 {
		return 0, io.EOF
	}
	k := len(p)
	if rem < k {
		k = rem
	}
	if !r.oneShot && k > 1 {
		k = 1 + verifChoose(verifName(r.name+"k", r.calls), k)
	}
	copy(p, r.data[r.pos:r.pos+k])
	r.pos += k
	if r.pos == len(r.data) && !r.oneShot {
		if verifChoose(verifName(r.name+"eof", r.calls), 2) == 1 {
			return k, io.EOF
		}
	}
	return k, nil
}

func zzFreshHP(il, hb int, bc BufConfig) *hashParser {
	s := new(hashParser)
	if err := s.ParserBuffer.Init(bc); err != nil {
		verifAssume(false)
	}
	if err := s.hash.init(il, hb); err != nil {
		verifAssume(false)
	}
	s.HPConfig = HPConfig{ShrinkSize: s.ParserBuffer.ShrinkSize, BufferSize: s.ParserBuffer.BufferSize, WindowSize: s.ParserBuffer.WindowSize,
		BlockSize: s.ParserBuffer.BlockSize, InputLen: il, HashBits: hb}
	return s
}

// zzH_wrapChunk: the block sequence of a wrapped parser does not depend on the
// chunking of the reader; the stream is delivered completely; io.EOF, twice.
func zzH_wrapChunk() {
	N := verifChoose("N", verifParam("N")+1)
	stream := verifBytes("S", N)
	bc := BufConfig{BufferSize: 1 + verifChoose("B", verifParam("PB")), WindowSize: 1 + verifChoose("Wn", verifParam("PB")+1), BlockSize: 1 + verifChoose("bs", verifParam("BS"))}
	bc.ShrinkSize = verifChoose("S_", bc.BufferSize)
	il, hb := verifParam("inputLen"), verifParam("hashBits")
	a := Wrap(&zzStreamReader{data: stream, oneShot: true, name: "a"}, zzFreshHP(il, hb, bc))
	b := Wrap(&zzStreamReader{data: stream, name: "b"}, zzFreshHP(il, hb, bc))
	var ba, bb Block
	g := []byte(nil)
	for step := 0; ; step++ {
		if step > 2*N+2 {
			verifFail("Wrap: more Parse calls than bytes: no progress [C08,C16]")
			return
		}
		na, ea := a.Parse(&ba, 0)
		nb, eb := b.Parse(&bb, 0)
		verifAssert(na == nb && ea == eb, "Wrap: n/err depend on the chunking of the reader [C08]")
		if ea != nil || eb != nil {
			verifAssert(ea == io.EOF, "Wrap: stream ended with an error other than io.EOF [C08]")
			break
		}
		same := len(ba.Sequences) == len(bb.Sequences) && len(ba.Literals) == len(bb.Literals)
		verifAssert(same, "Wrap: block shape depends on the chunking of the reader [C08]")
		if !same {
			return
		}
		for i := range ba.Sequences {
			same = verifAnd(same, ba.Sequences[i] == bb.Sequences[i])
		}
		for i := range ba.Literals {
			same = verifAnd(same, ba.Literals[i] == bb.Literals[i])
		}
		verifAssert(same, "Wrap: block content depends on the chunking of the reader [C08]")
		var ok bool
		g, ok = zzExpandBlock(g, &bb, "Wrap")
		if !ok {
			return
		}
	}
	verifAssert(len(g) == N, "Wrap: blocks do not expand to the whole stream [C08]")
	if len(g) == N {
		same := true
		for i := range g {
			same = verifAnd(same, g[i] == stream[i])
		}
		verifAssert(same, "Wrap: blocks expand to other bytes than the reader produced [C08,C01]")
	}
	n2, e2 := b.Parse(&bb, 0)
	verifAssert(n2 == 0 && e2 == io.EOF, "Wrap: io.EOF not repeated after the end of the stream [C08]")
	verifReach("end")
}
