package lz

// Bounded-history harnesses for the two suffix-array parsers, GSAP and OSAP
// (C01, C02, C03, C11, C12, C13, C14, C19).
//
// Assume/guarantee: suffix.Sort is replaced (job stub) by the reference sort
// zzRefSuffixSort below, which forks on byte comparisons; on every path the
// suffix array is therefore concrete and the path stands for all byte strings of
// one order type. That suffix.Sort computes the same array is C09's claim.
// Everything else (isa, bitset ranks, lcp, suffix.LCP, suffix.Segments, the
// edge closure, the dynamic program) is the real code.

// zzRefSuffixSort has the signature of suffix.Sort.
func zzRefSuffixSort(t []byte, sa []int32) {
	n := len(t)
	if len(sa) != n {
		panic("zzRefSuffixSort: len(sa) != len(t)")
	}
	cnt := 0
	for i := 0; i < n; i++ {
		k := cnt
		for k > 0 && zzSufLess(t, i, int(sa[k-1])) {
			sa[k] = sa[k-1]
			k--
		}
		sa[k] = int32(i)
		cnt++
	}
}

func zzSufLess(t []byte, a, b int) bool {
	for a < len(t) && b < len(t) {
		if t[a] != t[b] {
			return t[a] < t[b]
		}
		a++
		b++
	}
	return a == len(t)
}

// zzOrderType makes the order type of the bytes explicit on the path: after it
// every comparison between two stream bytes is decided by the path condition.
func zzOrderType(s []byte) {
	for i := 0; i < len(s); i++ {
		for j := i + 1; j < len(s); j++ {
			if s[i] == s[j] {
				continue
			}
			if s[i] < s[j] {
				continue
			}
		}
	}
}

// zzStream: N arbitrary bytes, or (job parameter alpha=2) N bytes over an
// arbitrary two-letter alphabet c0 < c1, which reaches longer streams with 2^N paths.
func zzStream(N int) []byte {
	if verifParamOr("alpha", 0) == 2 {
		c0 := verifU8("c0")
		c1 := verifU8("c1")
		verifAssume(c0 < c1)
		s := make([]byte, N)
		for i := range s {
			switch verifParamOr(verifName("pin", i), -1) { // job split: this job explores one letter at this position
			case 0:
				s[i] = c0
			case 1:
				s[i] = c1
			default:
				s[i] = verifIteU8(verifBool(verifName("b", i)), c1, c0)
			}
		}
		return s
	}
	return verifBytes("S", N)
}

const (
	zzGSAP = 10
	zzOSAP = 11
)

type zzSapCfg struct {
	kind                int
	bc                  BufConfig
	minMatch, maxMatch  int
}

func zzNewSap(c zzSapCfg) (Parser, *ParserBuffer) {
	switch c.kind {
	case zzGSAP:
		s := new(gsap)
		if err := s.ParserBuffer.Init(c.bc); err != nil {
			verifAssume(false)
		}
		s.GSAPConfig = GSAPConfig{ShrinkSize: s.ParserBuffer.ShrinkSize, BufferSize: s.ParserBuffer.BufferSize, WindowSize: s.ParserBuffer.WindowSize,
			BlockSize: s.ParserBuffer.BlockSize, MinMatchLen: c.minMatch}
		if err := s.GSAPConfig.Verify(); err != nil {
			verifAssume(false)
		}
		return s, &s.ParserBuffer
	case zzOSAP:
		s := new(optSuffixArrayParser)
		if err := s.ParserBuffer.Init(c.bc); err != nil {
			verifAssume(false)
		}
		s.OSAPConfig = OSAPConfig{ShrinkSize: s.ParserBuffer.ShrinkSize, BufferSize: s.ParserBuffer.BufferSize, WindowSize: s.ParserBuffer.WindowSize,
			BlockSize: s.ParserBuffer.BlockSize, MinMatchLen: c.minMatch, MaxMatchLen: c.maxMatch, Cost: "XZCost"}
		if err := s.OSAPConfig.Verify(); err != nil {
			verifAssume(false)
		}
		s.cost = XZCost
		return s, &s.ParserBuffer
	}
	panic("bad kind")
}

func zzSapConfig(kind int) zzSapCfg {
	c := zzSapCfg{kind: kind}
	c.bc = BufConfig{BufferSize: verifParam("B"), ShrinkSize: verifParam("S"), WindowSize: verifParam("Wn"), BlockSize: verifParam("bs")}
	c.minMatch = verifParam("mm")
	c.maxMatch = verifParamOr("MM", 273)
	return c
}

// zzCP: length of the common prefix of data[a:end] and data[b:end] as a term.
func zzCP(data []byte, a, b, end int) int {
	n := 0
	ok := true
	for k := 0; a+k < end && b+k < end; k++ {
		ok = verifAnd(ok, data[a+k] == data[b+k])
		n += verifB2I(ok)
	}
	return n
}

// zzGsapLongest: C12 oracle for one GSAP block.
func zzGsapLongest(tag string, data []byte, w, n int, blk *Block, minMatch int, bufLEwin bool) {
	end := w + n
	q := w
	lc := 0
	for i := range blk.Sequences {
		s := blk.Sequences[i]
		ll, mm := verifConc(int(s.LitLen)), verifConc(int(s.MatchLen))
		// literal positions q .. q+ll-1
		if bufLEwin {
			for p := q; p < q+ll && p < end; p++ {
				for f := 0; f < p; f++ {
					verifAssert(zzCP(data, f, p, end) < minMatch, tag+": byte emitted as literal although an earlier buffered position offers a match of at least MinMatchLen [C12]")
				}
			}
		}
		q += ll
		lc += ll
		if q >= end {
			return
		}
		for f := 0; f < q; f++ {
			verifAssert(zzCP(data, f, q, end) <= mm, tag+": emitted match is shorter than the longest match available at that position [C12]")
		}
		q += mm
	}
	if bufLEwin {
		for p := q; p < end; p++ {
			for f := 0; f < p; f++ {
				verifAssert(zzCP(data, f, p, end) < minMatch, tag+": trailing byte emitted as literal although an earlier buffered position offers a match of at least MinMatchLen [C12]")
			}
		}
	}
}

// zzOptCost: minimum cost of an LZ77 parse of data[w:w+n] with matches of length
// minMatch..maxMatch, offsets <= window and sources inside the buffer (C11 oracle).
func zzOptCost(data []byte, w, n, minMatch, maxMatch, window int) uint64 {
	end := w + n
	const inf = uint64(1) << 60
	d := make([]uint64, n+1)
	for i := 1; i <= n; i++ {
		d[i] = inf
	}
	for i := 0; i < n; i++ {
		p := w + i
		if c := d[i] + 9; c < d[i+1] {
			d[i+1] = c
		}
		for o := 1; o <= window && o <= p; o++ {
			cp := verifConc(zzCP(data, p-o, p, end))
			if cp > maxMatch {
				cp = maxMatch
			}
			for m := minMatch; m <= cp; m++ {
				if c := d[i] + XZCost(uint32(m), uint32(o)); c < d[i+m] {
					d[i+m] = c
				}
			}
		}
	}
	return d[n]
}

func zzBlockCost(blk *Block) uint64 {
	c := 9 * uint64(len(blk.Literals))
	for i := range blk.Sequences {
		c += XZCost(blk.Sequences[i].MatchLen, blk.Sequences[i].Offset)
	}
	return c
}

// zzSapParseAll parses until the buffer is empty, checking every block.
func zzSapParseAll(tag string, c zzSapCfg, p Parser, pb *ParserBuffer, nilFirst bool, canSkip bool) {
	for step := 0; ; step++ {
		if step > 3*len(pb.Data)+3 {
			verifFail(tag + ": Parse does not drain the buffer [C03,C16]")
			return
		}
		data := append([]byte(nil), pb.Data...)
		w, off := pb.W, pb.Off
		if nilFirst && step == 0 {
			n, err := p.Parse(nil, 0)
			want := len(data) - w
			if pb.BlockSize < want {
				want = pb.BlockSize
			}
			if want == 0 {
				verifAssert(err == ErrEmptyBuffer && n == 0, tag+": Parse(nil) on an empty buffer must give 0, ErrEmptyBuffer [C14]")
				return
			}
			verifAssert(err == nil && n == want, tag+": Parse(nil) must consume min(BlockSize, unparsed) bytes [C14]")
			verifAssert(pb.W == w+want, tag+": Parse(nil) does not advance W by n [C14]")
			if pb.W != w+want {
				return
			}
			verifReach("skipped")
			continue
		}
		flags := verifParamOr("flagsfix", -1) // -1: symbolic per call
		if flags < 0 {
			flags = verifChoose(verifName("flags", step), 2)
		}
		var blk Block
		n, err := p.Parse(&blk, flags)
		if err == ErrEmptyBuffer {
			verifAssert(w == len(data) && n == 0, tag+": ErrEmptyBuffer although data is buffered [C03]")
			return
		}
		maxMatch := 0
		if c.kind == zzOSAP {
			maxMatch = c.maxMatch
		}
		zzCheckBlock(tag, data, w, off, pb.WindowSize, pb.BlockSize, &blk, n, err, flags, c.minMatch, maxMatch, c.kind == zzGSAP, false, pb.W)
		nn := verifConc(n)
		if err != nil || nn < 1 || pb.W != w+nn {
			return
		}
		if len(blk.Sequences) > 0 {
			verifReach("match")
		}
		if c.kind == zzGSAP && !canSkip {
			zzGsapLongest(tag, data, w, nn, &blk, c.minMatch, pb.BufferSize <= pb.WindowSize)
		}
		if c.kind == zzOSAP && flags == 0 {
			got := zzBlockCost(&blk)
			opt := zzOptCost(data, w, nn, c.minMatch, c.maxMatch, pb.WindowSize)
			verifAssert(got == opt, tag+": emitted parse is not of minimum cost [C11]")
		}
	}
}

// zzSapScript runs one of the call scripts on a symbolic stream of N bytes split at k.
//
//	0: Write(all) Parse*
//	1: Write(a) Parse* Write(b) Parse*                 (second fill, suffix structures rebuilt)
//	2: Write(a) Parse* Shrink Write(b) Parse*
//	3: Write(a) Parse(one block) Reset(b) Parse*       (Reset with data on a used parser)
//	4: Write(a) Parse* Reset(nil) Write(b) Parse*
//	5: Write(all) Parse(nil) Parse*                    (C14)
//	6: Write(a) Parse(one block) Parse(nil) Write(b) Parse*
//	7: Write(a) Parse(one block) Write(b) Parse(nil) Parse*
func zzSapScript(kind int) {
	N := verifParam("N")
	k := verifParam("k")
	script := verifParam("script")
	stream := zzStream(N)
	zzOrderType(stream)
	c := zzSapConfig(kind)
	p, pb := zzNewSap(c)
	a, b := stream[:k], stream[k:]
	wr := func(x []byte) {
		n, err := p.Write(x)
		verifAssume(err == nil && n == len(x)) // scripts are sized so that everything fits
	}
	one := func() {
		var blk Block
		data := append([]byte(nil), pb.Data...)
		w, off := pb.W, pb.Off
		flags := verifChoose("flags1", 2)
		n, err := p.Parse(&blk, flags)
		if err == ErrEmptyBuffer {
			return
		}
		maxMatch := 0
		if kind == zzOSAP {
			maxMatch = c.maxMatch
		}
		zzCheckBlock("Parse(first)", data, w, off, pb.WindowSize, pb.BlockSize, &blk, n, err, flags, c.minMatch, maxMatch, kind == zzGSAP, false, pb.W)
	}
	switch script {
	case 0:
		wr(stream)
		zzSapParseAll("Parse", c, p, pb, false, false)
	case 1:
		wr(a)
		zzSapParseAll("Parse(fill 1)", c, p, pb, false, false)
		wr(b)
		zzSapParseAll("Parse(fill 2)", c, p, pb, false, false)
	case 2:
		wr(a)
		zzSapParseAll("Parse(fill 1)", c, p, pb, false, false)
		p.Shrink()
		wr(b)
		zzSapParseAll("Parse(after Shrink)", c, p, pb, false, false)
	case 3:
		wr(a)
		one()
		if err := p.Reset(b); err != nil {
			verifAssume(false)
		}
		zzSapParseAll("Parse(after Reset(data))", c, p, pb, false, false)
	case 4:
		wr(a)
		zzSapParseAll("Parse(fill 1)", c, p, pb, false, false)
		if err := p.Reset(nil); err != nil {
			verifFail("Reset(nil) fails [C16]")
		}
		wr(b)
		zzSapParseAll("Parse(after Reset(nil))", c, p, pb, false, false)
	case 5:
		wr(stream)
		zzSapParseAll("Parse after Parse(nil) [C14]", c, p, pb, true, true)
	case 6:
		wr(a)
		one()
		zzSapParseAll("Parse after Parse(nil) [C14]", c, p, pb, true, true)
		wr(b)
		zzSapParseAll("Parse after Parse(nil), fill 2 [C14]", c, p, pb, false, true)
	case 7: // the skipped block crosses the end of the suffix structures built for the first fill
		wr(a)
		one()
		wr(b)
		zzSapParseAll("Parse after Parse(nil) across fills [C14]", c, p, pb, true, true)
	}
	verifReach("end")
}

func zzH_gsapScript() { zzSapScript(zzGSAP) }
func zzH_osapScript() { zzSapScript(zzOSAP) }
