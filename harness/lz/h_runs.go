package lz

// C19, third clause: a block of at least 32 bytes inside a run of one repeated
// byte carries at most one literal (hash parsers) / at most MinMatchLen literals
// (GSAP, OSAP). Data layout: pre arbitrary bytes, then the run (lead bytes before
// the block, the block, tail bytes behind it), then post arbitrary bytes.

func zzRunLayout() (pre, lead, n, tail, post int) {
	return verifParam("pre"), verifParam("lead"), verifParam("n"), verifParam("tail"), verifParam("post")
}

func zzRunIS(kind int) {
	pre, lead, n, tail, post := zzRunLayout()
	ld := pre + lead + n + tail + post
	w := pre + lead
	p, pb, _ := zzMakeParser(kind, ld, w, n)
	c := verifU8("c")
	for i := pre; i < ld-post; i++ {
		pb.Data[i] = c
	}
	var blk Block
	nn, err := p.Parse(&blk, 0)
	verifAssert(err == nil && nn == n, "Parse(run): block is not the 32-byte block [C03]")
	verifAssert(len(blk.Literals) <= 1, "Parse(run): block inside a run of one byte carries more than one literal [C19]")
	if len(blk.Sequences) > 0 {
		verifReach("match")
	}
	verifReach("end")
}

func zzH_runHP()   { zzRunIS(zzHP) }
func zzH_runBHP()  { zzRunIS(zzBHP) }
func zzH_runDHP()  { zzRunIS(zzDHP) }
func zzH_runBDHP() { zzRunIS(zzBDHP) }
// zzH_runBUP: for the bucket parser the pre-state is produced by a real history
// (new parser, Write of the bytes in front of the block, Parse, Write of the rest):
// arbitrary bucket contents make every candidate position symbolic, which does
// not scale to 40-byte buffers.
func zzH_runBUP() {
	pre, lead, n, tail, post := zzRunLayout()
	ld := pre + lead + n + tail + post
	w := pre + lead
	data := verifBytes("S", ld)
	c := verifU8("c")
	for i := pre; i < ld-post; i++ {
		data[i] = c
	}
	s := new(bucketParser)
	ws := verifInt("WindowSize")
	verifAssume(1 <= ws && ws <= 1<<32-8)
	if s.ParserBuffer.Init(BufConfig{BufferSize: 64, ShrinkSize: 8, WindowSize: ws, BlockSize: n}) != nil {
		verifAssume(false)
	}
	cfg := bucketConfig{InputLen: verifParam("inputLen"), HashBits: verifParam("hashBits"), BucketSize: verifParam("bucketSize")}
	if s.bucketHash.init(&cfg) != nil {
		verifAssume(false)
	}
	s.BUPConfig = BUPConfig{ShrinkSize: s.ParserBuffer.ShrinkSize, BufferSize: s.ParserBuffer.BufferSize, WindowSize: s.ParserBuffer.WindowSize,
		BlockSize: s.ParserBuffer.BlockSize, InputLen: cfg.InputLen, HashBits: cfg.HashBits, BucketSize: cfg.BucketSize}
	var blk Block
	if w > 0 {
		s.Write(data[:w])
		k, err := s.Parse(&blk, 0)
		verifAssume(err == nil && k == w)
	}
	s.Write(data[w:])
	nn, err := s.Parse(&blk, 0)
	verifAssert(err == nil && nn == n, "Parse(run): block is not the 32-byte block [C03]")
	verifAssert(len(blk.Literals) <= 1, "Parse(run): block inside a run of one byte carries more than one literal [C19]")
	if len(blk.Sequences) > 0 {
		verifReach("match")
	}
	verifReach("end")
}

func zzRunSap(kind int) {
	pre, lead, n, tail, post := zzRunLayout()
	ld := pre + lead + n + tail + post
	w := pre + lead
	data := verifBytes("S", ld)
	c := verifU8("c")
	for i := pre; i < ld-post; i++ {
		data[i] = c
	}
	zzOrderType(data)
	cfg := zzSapConfig(kind)
	p, pb := zzNewSap(cfg)
	k, err := p.Write(data)
	verifAssume(err == nil && k == ld)
	pb.W = w // as if the bytes in front of the block had been parsed by earlier calls (the search structures are built lazily)
	var blk Block
	nn, err := p.Parse(&blk, 0)
	verifAssert(err == nil && nn == n, "Parse(run): block is not the 32-byte block [C03]")
	verifAssert(len(blk.Literals) <= cfg.minMatch, "Parse(run): block inside a run of one byte carries more than MinMatchLen literals [C19]")
	zzCheckBlock("Parse(run)", data, w, 0, pb.WindowSize, pb.BlockSize, &blk, nn, err, 0, cfg.minMatch, verifIteInt(kind == zzOSAP, cfg.maxMatch, 0), kind == zzGSAP, false, pb.W)
	if len(blk.Sequences) > 0 {
		verifReach("match")
	}
	verifReach("end")
}

func zzH_runGSAP() { zzRunSap(zzGSAP) }
func zzH_runOSAP() { zzRunSap(zzOSAP) }
