package lz

// IS harnesses for ParserBuffer (C15): one operation from an arbitrary buffer
// state that satisfies the representation invariant. Ghost reading of a state:
// Data[i] is the byte at absolute stream offset Off+i.

import "io"

// zzPBState builds an arbitrary ParserBuffer.
func zzPBState() (b *ParserBuffer, d0 []byte) {
	P := verifParam("P")
	ld := verifChoose("ld", P+1)
	b = &ParserBuffer{}
	if ld > 0 || verifChoose("alloc", 2) == 1 {
		// cap >= len+7 whenever the buffer holds data (margin invariant); extra capacity arbitrary
		cx := verifChoose("cx", verifParam("CX")+1)
		b.Data = verifBytesCap("D", ld, ld+7+cx)
	}
	b.W = verifInt("W")
	b.Off = verifInt64("Off")
	b.BufferSize = verifInt("BufferSize")
	b.ShrinkSize = verifInt("ShrinkSize")
	b.WindowSize = verifInt("WindowSize")
	b.BlockSize = verifInt("BlockSize")
	verifAssume(0 <= b.W)
	verifAssume(b.W <= ld)
	verifAssume(0 <= b.Off)
	verifAssume(b.Off <= 1<<40)
	verifAssume(1 <= b.BufferSize)
	verifAssume(b.BufferSize <= verifParam("PB"))
	verifAssume(ld <= b.BufferSize)
	verifAssume(0 <= b.ShrinkSize)
	verifAssume(b.ShrinkSize < b.BufferSize)
	verifAssume(0 <= b.WindowSize)
	verifAssume(b.WindowSize <= 1<<32-8)
	verifAssume(1 <= b.BlockSize)
	verifAssume(b.BlockSize <= 1<<32-8)
	d0 = append([]byte(nil), b.Data...)
	return b, d0
}

func zzPBInv(b *ParserBuffer, tag string) {
	verifAssert(0 <= b.W && b.W <= len(b.Data), tag+": W outside 0..len(Data) [C15]")
	verifAssert(len(b.Data) <= b.BufferSize, tag+": buffer holds more than BufferSize bytes [C15,C16]")
	verifAssert(verifOr(len(b.Data) == 0, cap(b.Data) >= len(b.Data)+7), tag+": 7-byte read margin lost [C15,C16]")
	verifAssert(b.Off >= 0, tag+": Off negative [C15]")
}

// zzPBSame checks Data' = d0[delta:] ++ app.
func zzPBSame(b *ParserBuffer, d0 []byte, delta int, app []byte, tag string) {
	want := len(d0) - delta + len(app)
	verifAssert(len(b.Data) == want, tag+": buffered length is not old data minus discarded plus stored bytes [C15]")
	if len(b.Data) != want {
		return
	}
	ok := true
	for i := 0; i < len(b.Data); i++ {
		var w byte
		if delta+i < len(d0) {
			w = d0[delta+i]
		} else {
			w = app[delta+i-len(d0)]
		}
		ok = verifAnd(ok, b.Data[i] == w)
	}
	verifAssert(ok, tag+": buffered bytes are not the stream bytes [C15]")
}

func zzH_pbWrite() {
	b, d0 := zzPBState()
	w0, off0 := b.W, b.Off
	lp := verifChoose("lp", verifParam("LP")+1)
	p := verifBytes("p", lp)
	n, err := b.Write(p)
	room := b.BufferSize - len(d0)
	want := lp
	if room < want {
		want = room
	}
	verifAssert(n == want, "Write: n is not min(len(p), free space) [C15]")
	verifAssert((err == ErrFullBuffer) == (n < lp), "Write: ErrFullBuffer not exactly when p was not taken completely [C15]")
	verifAssert(err == nil || err == ErrFullBuffer, "Write: undocumented error [C15,C16]")
	nn := verifConc(n)
	if nn < 0 || nn > lp {
		verifFail("Write: n outside 0..len(p) [C15]")
		return
	}
	zzPBSame(b, d0, 0, p[:nn], "Write")
	verifAssert(b.W == w0 && b.Off == off0, "Write: W or Off changed [C15]")
	zzPBInv(b, "Write")
	verifReach("end")
}

// zzReader is a contract-abiding io.Reader stub: every Read delivers k <= len(p)
// fresh arbitrary bytes and an error choice; k >= 1 or err != nil.
type zzReader struct {
	calls   int
	max     int // calls after which the reader ends with (0, io.EOF)
	out     []byte
	lastErr error
	errs    int // how many non-nil errors were returned
}

var zzErrReader = &zzErr{"reader failed"}

type zzErr struct{ s string }

func (e *zzErr) Error() string { return e.s }

func (r *zzReader) Read(p []byte) (int, error) {
	r.calls++
	if r.calls > r.max {
		r.lastErr = io.EOF
		r.errs++
		return 0, io.EOF
	}
	k := 0
	if len(p) > 0 {
		k = verifChoose(verifName("rk", r.calls), len(p)+1)
	}
	e := verifChoose(verifName("re", r.calls), 3) // 0: nil, 1: io.EOF, 2: failure
	if k == 0 && e == 0 {
		e = 1 + verifChoose(verifName("re0", r.calls), 2)
	}
	for i := 0; i < k; i++ {
		c := verifU8(verifName("rb", len(r.out)))
		p[i] = c
		r.out = append(r.out, c)
	}
	switch e {
	case 1:
		r.lastErr = io.EOF
		r.errs++
		return k, io.EOF
	case 2:
		r.lastErr = zzErrReader
		r.errs++
		return k, zzErrReader
	}
	return k, nil
}

func zzH_pbReadFrom() {
	b, d0 := zzPBState()
	w0, off0 := b.W, b.Off
	r := &zzReader{max: verifParam("RD")}
	n, err := b.ReadFrom(r)
	verifAssert(n == int64(len(r.out)), "ReadFrom: n is not the number of bytes the reader delivered [C15,C08]")
	zzPBSame(b, d0, 0, r.out, "ReadFrom")
	verifAssert(err != nil, "ReadFrom: returned without error although neither the reader ended nor the buffer is full [C15]")
	if err == ErrFullBuffer {
		verifAssert(len(b.Data) >= b.BufferSize, "ReadFrom: ErrFullBuffer although the buffer has room [C15]")
		verifAssert(r.errs == 0, "ReadFrom: reader error replaced by ErrFullBuffer [C15,C08]")
	} else {
		verifAssert(r.errs == 1 && err == r.lastErr, "ReadFrom: error is not the reader's own error [C15,C08]")
	}
	verifAssert(b.W == w0 && b.Off == off0, "ReadFrom: W or Off changed [C15]")
	zzPBInv(b, "ReadFrom")
	verifReach("end")
}

func zzH_pbShrink() {
	b, d0 := zzPBState()
	w0, off0 := b.W, b.Off
	delta := b.Shrink()
	want := w0 - b.ShrinkSize
	if want < 0 {
		want = 0
	}
	verifAssert(delta == want, "Shrink: returned delta is not max(0, W-ShrinkSize) [C15]")
	dd := verifConc(delta)
	if dd < 0 || dd > len(d0) {
		verifFail("Shrink: delta outside 0..len(Data) [C15]")
		return
	}
	zzPBSame(b, d0, dd, nil, "Shrink")
	verifAssert(b.W == w0-dd, "Shrink: W not moved with the data [C15]")
	keep := w0
	if b.ShrinkSize < keep {
		keep = b.ShrinkSize
	}
	verifAssert(b.W == keep, "Shrink: history kept in front of W is not min(ShrinkSize, parsed) [C15]")
	verifAssert(b.Off == off0+int64(dd), "Shrink: Off not advanced by delta [C15]")
	zzPBInv(b, "Shrink")
	verifReach("end")
}

func zzH_pbReset() {
	b, d0 := zzPBState()
	w0, off0 := b.W, b.Off
	ln := verifChoose("rl", verifParam("LP")+1)
	cx := verifChoose("rc", 9) // spare capacity 0..8: below, at and above the 7-byte margin
	var data []byte
	if ln > 0 || verifChoose("rnil", 2) == 1 {
		data = verifBytesCap("N", ln, ln+cx)
	}
	keep := append([]byte(nil), data...)
	err := b.Reset(data)
	if ln > b.BufferSize {
		// the property only promises an error here; what the buffer holds afterwards is not specified
		verifAssert(err != nil, "Reset: data larger than BufferSize accepted [C15,C16]")
		_, _, _ = d0, w0, off0
	} else {
		verifAssert(err == nil, "Reset: error for data that fits [C15,C16]")
		zzPBSame(b, nil, 0, keep, "Reset")
		verifAssert(b.W == 0, "Reset: W != 0 [C15,C13]")
		verifAssert(b.Off == 0, "Reset: Off != 0 [C15,C13]")
		same := true
		for i := range keep {
			same = verifAnd(same, data[i] == keep[i])
		}
		verifAssert(same, "Reset: caller's data modified [C15]")
	}
	zzPBInv(b, "Reset")
	verifReach("end")
}

// zzH_pbReadAt: ReadAt, PeekAt and ByteAt at an arbitrary absolute offset.
func zzH_pbReadAt() {
	b, d0 := zzPBState()
	ld := len(d0)
	x := verifInt64("x")
	i := x - b.Off
	inside := verifAnd(0 <= i, i < int64(ld))

	// ByteAt
	c, err := b.ByteAt(x)
	if inside {
		ii := verifConc(int(i))
		verifAssert(err == nil && c == d0[ii], "ByteAt: not the byte at that stream offset [C15]")
	} else if i == int64(ld) {
		verifAssert(err == ErrEndOfBuffer, "ByteAt: end of data must give ErrEndOfBuffer [C15]")
	} else {
		verifAssert(err == ErrOutOfBuffer, "ByteAt: offset outside the retained range must give ErrOutOfBuffer [C15]")
	}

	// ReadAt
	lp := verifChoose("lp", verifParam("LP")+1)
	p := make([]byte, lp)
	n, err := b.ReadAt(p, x)
	if inside {
		ii := verifConc(int(i))
		want := ld - ii
		if lp < want {
			want = lp
		}
		verifAssert(n == want, "ReadAt: n is not min(len(p), bytes from that offset) [C15]")
		verifAssert((err == ErrEndOfBuffer) == (ld-ii < lp), "ReadAt: ErrEndOfBuffer not exactly for short reads [C15]")
		verifAssert(err == nil || err == ErrEndOfBuffer, "ReadAt: unexpected error [C15]")
		ok := true
		for k := 0; k < want && k < n; k++ {
			ok = verifAnd(ok, p[k] == d0[ii+k])
		}
		verifAssert(ok, "ReadAt: bytes are not the stream bytes at that offset [C15]")
	} else {
		verifAssert(err == ErrOutOfBuffer && n == 0, "ReadAt: offset outside the retained range must give 0, ErrOutOfBuffer [C15]")
	}

	// PeekAt
	q, err := b.PeekAt(lp, x)
	if inside {
		ii := verifConc(int(i))
		verifAssert(len(q) == ld-ii, "PeekAt: slice does not run to the end of the data [C15]")
		verifAssert((err == ErrEndOfBuffer) == (ld-ii < lp), "PeekAt: ErrEndOfBuffer not exactly when fewer than n bytes are available [C15]")
		ok := true
		for k := 0; k < len(q) && k < ld-ii; k++ {
			ok = verifAnd(ok, q[k] == d0[ii+k])
		}
		verifAssert(ok, "PeekAt: bytes are not the stream bytes at that offset [C15]")
	} else {
		verifAssert(err == ErrOutOfBuffer && len(q) == 0, "PeekAt: offset outside the retained range must give ErrOutOfBuffer [C15]")
	}
	zzPBSame(b, d0, 0, nil, "ReadAt")
	verifReach("end")
}

// zzH_pbInit: Init leaves an empty buffer satisfying the invariant, or rejects.
func zzH_pbInit() {
	var b ParserBuffer
	if verifChoose("used", 2) == 1 {
		b.Data = verifBytesCap("D", 3, 12)
		b.W, b.Off = 2, 9
	}
	cfg := BufConfig{ShrinkSize: verifInt("ShrinkSize"), BufferSize: verifInt("BufferSize"), WindowSize: verifInt("WindowSize"), BlockSize: verifInt("BlockSize")}
	c := cfg
	c.SetDefaults()
	err := b.Init(cfg)
	verifAssert((err == nil) == (c.Verify() == nil), "Init: accepted iff the defaults-completed configuration verifies [C16]")
	if err == nil {
		verifAssert(len(b.Data) == 0 && b.W == 0 && b.Off == 0, "Init: buffer not empty [C15,C13]")
		verifAssert(b.BufConfig == c, "Init: configuration is not the defaults-completed one [C20]")
		verifAssert(1 <= b.BufferSize && 0 <= b.ShrinkSize && b.ShrinkSize < b.BufferSize, "Init: accepted sizes out of range [C16]")
		verifReach("accepted")
	}
	verifReach("end")
}
