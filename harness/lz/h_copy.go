package lz

// Two-copy inputs for the hash parsers (C01, C02, C03, C19): the block repeats the
// o bytes in front of it (o >= 9, so offset-1 artefacts of periodic data are
// gone) except for ONE arbitrary byte at block index d. The table entries point
// at the start of the first copy with the right value, so the match candidate at
// the block start has offset o and the 8-byte extension loops meet a single
// mismatch (or none) at d, with equal bytes again behind it. Base bytes, the
// defect byte, WindowSize and the other table fields are symbolic.

func zzCopyPin(h *hash, data []byte) {
	x := _getLE64(data[:8]) & h.mask
	for i := range h.table {
		verifAssume(h.table[i].pos == 0)
		verifAssume(h.table[i].value == uint32(x))
	}
}

func zzCopyIS(kind int, backward bool) {
	o := verifParam("o")
	L := verifParam("L")
	d := verifParam("d")
	ld := o + L
	flags := verifChoose("flags", 2)
	p, pb, minMatch := zzMakeParser(kind, ld, o, L)
	// concrete, pairwise distinct base bytes (param seed); only the defect byte,
	// the margin bytes, WindowSize, Off and the flags stay symbolic
	seed := verifParam("seed")
	for k := 0; k < o; k++ {
		pb.Data[k] = byte(37*k + 11*seed + 1)
	}
	for k := 0; k < L; k++ {
		if k != d {
			pb.Data[o+k] = pb.Data[k]
		}
	}
	switch s := p.(type) {
	case *hashParser:
		zzCopyPin(&s.hash, pb.Data[:ld+7])
	case *backwardHashParser:
		zzCopyPin(&s.hash, pb.Data[:ld+7])
	case *doubleHashParser:
		zzCopyPin(&s.h1, pb.Data[:ld+7])
		zzCopyPin(&s.h2, pb.Data[:ld+7])
	case *bdhp:
		zzCopyPin(&s.h1, pb.Data[:ld+7])
		zzCopyPin(&s.h2, pb.Data[:ld+7])
	}
	data := append([]byte(nil), pb.Data...)
	off, ws := pb.Off, pb.WindowSize
	var blk Block
	n, err := p.Parse(&blk, flags)
	zzCheckBlock("Parse(copy)", data, o, off, ws, L, &blk, n, err, flags, minMatch, 0, true, backward, pb.W)
	if len(blk.Sequences) > 0 {
		verifReach("seq0")
		if int(blk.Sequences[0].Offset) == o {
			verifReach("off-o")
			if int(blk.Sequences[0].MatchLen) >= d {
				verifReach("copy-match")
			}
		}
	}
	verifReach("end")
}

func zzH_copyHP()   { zzCopyIS(zzHP, false) }
func zzH_copyBHP()  { zzCopyIS(zzBHP, true) }
func zzH_copyDHP()  { zzCopyIS(zzDHP, false) }
func zzH_copyBDHP() { zzCopyIS(zzBDHP, true) }
