package lz

// Structured long inputs for the hash parsers (C01, C02, C03, C19): the 8-byte
// extension loops, the getLE64 tails and the backward extension need matches of
// 8..26 bytes, which the free-byte harnesses (buffers of <= 7 bytes) cannot
// contain. Here the data is periodic with period p over symbolic base bytes,
// 40..48 bytes long, with up to two "defect" positions whose byte is arbitrary,
// so that matches end at every length across the 8/16/24-byte boundaries. The
// table is produced by a real history (new parser, two fills), positions are
// concrete, byte values and hash collisions are symbolic.

func zzLongBH(kind int) {
	n := verifParam("n")
	p := verifParam("p")
	w := verifParam("w")
	d1 := verifParamOr("d1", -1)
	d2 := verifParamOr("d2", -1)
	base := verifBytes("b", p)
	data := make([]byte, n)
	for i := range data {
		data[i] = base[i%p]
	}
	if d1 >= 0 {
		data[d1] = verifU8("e1")
	}
	if d2 >= 0 {
		data[d2] = verifU8("e2")
	}
	ws := verifInt("WindowSize")
	verifAssume(1 <= ws && ws <= 1<<32-8)
	tmp := &ParserBuffer{BufConfig: BufConfig{BufferSize: 64, ShrinkSize: 8, WindowSize: ws, BlockSize: verifParam("bs")}}
	ps, pb := zzFreshLike(kind, tmp)
	minMatch := 3
	if il := verifParam("inputLen"); il < 3 {
		minMatch = il
	}
	backward := kind == zzBHP || kind == zzBDHP
	feed := func(x []byte) {
		k, err := ps.Write(x)
		verifAssume(err == nil && k == len(x))
		for step := 0; step <= len(x)+1; step++ {
			buf := append([]byte(nil), pb.Data...)
			w0, off := pb.W, pb.Off
			flags := verifChoose(verifName("flags", len(buf)*100+step), 2)
			var blk Block
			nn, err := ps.Parse(&blk, flags)
			if err == ErrEmptyBuffer {
				verifAssert(w0 == len(buf), "Parse(long): ErrEmptyBuffer although data is buffered [C03]")
				return
			}
			zzCheckBlock("Parse(long)", buf, w0, off, pb.WindowSize, pb.BlockSize, &blk, nn, err, flags, minMatch, 0, true, backward, pb.W)
			if err != nil || pb.W <= w0 {
				return
			}
			for i := range blk.Sequences {
				if blk.Sequences[i].MatchLen >= 16 {
					verifReach("long-match")
				}
			}
		}
		verifFail("Parse(long): buffer not drained [C03,C16]")
	}
	if w > 0 {
		feed(data[:w])
	}
	feed(data[w:])
	verifReach("end")
}

func zzH_longHP()   { zzLongBH(zzHP) }
func zzH_longBHP()  { zzLongBH(zzBHP) }
func zzH_longDHP()  { zzLongBH(zzDHP) }
func zzH_longBDHP() { zzLongBH(zzBDHP) }
func zzH_longBUP()  { zzLongBH(zzBUP) }
