"""Job definitions per property and tier (bounds live here)."""


def J(id, entry, pkg="lz", **kw):
    params = kw.pop("params", {})
    j = {"id": id, "entry": entry, "pkg": pkg, "params": params}
    j.update(kw)
    return j


def spec(prop, tier):
    f = globals().get("spec_" + prop)
    if f is None:
        raise SystemExit("no check defined for " + prop)
    s = f(tier)
    s.setdefault("reach", {})
    return s


def spec_T00(tier):
    n = 8 if tier == "quick" else 13
    return {"jobs": [J("lcp-%d" % n, "zzH_lcp", params={"n": n})],
            "bounds": {"slice lengths": "0..%d each" % n},
            "reach": {"zzH_lcp": ["lcp-done"]},
            "explanation": "engine self-test"}


DEC_OPS = ["decWriteByte", "decWrite", "decWriteMatch", "decRead", "decWriteTo", "decReset", "decWriteBlock", "decRejectOne"]


def dec_jobs(tier, ops=DEC_OPS):
    P, PB, LP, NL = (5, 7, 4, 3) if tier == "quick" else (8, 10, 6, 4)
    P2, PB2, NL2 = (3, 4, 2) if tier == "quick" else (4, 6, 3)
    base = {"P": P, "PB": PB, "LP": LP, "NS": 1, "NL": NL}
    two = {"P": P2, "PB": PB2, "LP": LP, "NS": 2, "NL": NL2}
    jobs = []
    for op in ops:
        if op == "decWriteBlock":
            for ld in range(P + 1):
                for ns in range(2):
                    jobs.append(J("%s-ld%d-ns%d" % (op, ld, ns), "zzH_" + op, params=dict(base, ld=ld, ns=ns)))
            for ld in range(P2 + 1):
                for nl in range(NL2 + 1):
                    jobs.append(J("%s-two-ld%d-nl%d" % (op, ld, nl), "zzH_" + op, params=dict(two, ld=ld, ns=2, nl=nl)))
        elif op in ("decWriteMatch", "decWrite"):
            for ld in range(P + 1):
                jobs.append(J("%s-ld%d" % (op, ld), "zzH_" + op, params=dict(base, ld=ld)))
        else:
            jobs.append(J(op, "zzH_" + op, params=base))
    bounds = {"len(Data), cap(Data)": "0..%d (every pair len<=cap)" % P, "BufferSize": "1..%d" % PB, "WindowSize": "0..BufferSize-1",
              "Write/Read slice": "0..%d bytes" % LP,
              "block": "0..1 sequences with LitLen/MatchLen/Offset/Aux over all of uint32 and 0..%d literal bytes; "
                       "2 sequences with 0..%d literals for len/cap<=%d, BufferSize<=%d" % (NL, NL2, P2, PB2),
              "R": "0..len(Data)", "Off": "len(Data)..2^40", "operations": "one call from an arbitrary state satisfying the invariant (inductive step)"}
    return jobs, bounds


def spec_C04(tier):
    jobs, bounds = dec_jobs(tier)
    return {"jobs": jobs, "bounds": bounds}
