"""Job definitions per property and tier (bounds live here)."""


def J(id, entry, pkg="lz", **kw):
    params = kw.pop("params", {})
    j = {"id": id, "entry": entry, "pkg": pkg, "params": params}
    j.update(kw)
    return j


def spec(prop, tier):
    f = globals().get("spec_" + prop)
    if f is None:
        raise SystemExit("no check defined for " + prop)
    s = f(tier)
    s.setdefault("reach", {})
    return s


def spec_T00(tier):
    n = 8 if tier == "quick" else 13
    return {"jobs": [J("lcp-%d" % n, "zzH_lcp", params={"n": n})],
            "bounds": {"slice lengths": "0..%d each" % n},
            "reach": {"zzH_lcp": ["lcp-done"]},
            "explanation": "engine self-test"}


DEC_OPS = ["decWriteByte", "decWrite", "decWriteMatch", "decRead", "decWriteTo", "decReset", "decWriteBlock", "decRejectOne"]


def dec_jobs(tier, ops=DEC_OPS):
    P, PB, LP, NL = (5, 7, 4, 3) if tier == "quick" else (8, 10, 6, 4)
    P2, PB2, NL2 = (3, 4, 2) if tier == "quick" else (4, 6, 3)
    base = {"P": P, "PB": PB, "LP": LP, "NS": 1, "NL": NL}
    two = {"P": P2, "PB": PB2, "LP": LP, "NS": 2, "NL": NL2}
    jobs = []
    for op in ops:
        if op == "decWriteBlock":
            for ld in range(P + 1):
                for ns in range(2):
                    jobs.append(J("%s-ld%d-ns%d" % (op, ld, ns), "zzH_" + op, params=dict(base, ld=ld, ns=ns)))
            for ld in range(P2 + 1):
                for nl in range(NL2 + 1):
                    jobs.append(J("%s-two-ld%d-nl%d" % (op, ld, nl), "zzH_" + op, params=dict(two, ld=ld, ns=2, nl=nl)))
        elif op in ("decWriteMatch", "decWrite"):
            for ld in range(P + 1):
                jobs.append(J("%s-ld%d" % (op, ld), "zzH_" + op, params=dict(base, ld=ld)))
        else:
            jobs.append(J(op, "zzH_" + op, params=base))
    bounds = {"len(Data), cap(Data)": "0..%d (every pair len<=cap)" % P, "BufferSize": "1..%d" % PB, "WindowSize": "0..BufferSize-1",
              "Write/Read slice": "0..%d bytes" % LP,
              "block": "0..1 sequences with LitLen/MatchLen/Offset/Aux over all of uint32 and 0..%d literal bytes; "
                       "2 sequences with 0..%d literals for len/cap<=%d, BufferSize<=%d" % (NL, NL2, P2, PB2),
              "R": "0..len(Data)", "Off": "len(Data)..2^40", "operations": "one call from an arbitrary state satisfying the invariant (inductive step)"}
    return jobs, bounds


DEC_ASSUME = ["pre-state: arbitrary DecoderBuffer with 0<=R<=len(Data)<=BufferSize, 0<=WindowSize<BufferSize, len(Data)<=Off<=2^40, "
              "len(Data)>=WindowSize or Off==len(Data) (the representation invariant; every harness re-asserts it on the post-state, so it is inductive)",
              "io.Writer stub: accepts k<=len(p) bytes and returns a non-nil error iff k<len(p)",
              "append growth as measured on this toolchain's runtime (go1.23.5 growslice)", "64-bit int"]
DEC_OUTSIDE = ["slices longer than the stated len/cap bounds", "blocks with more than 2 sequences (covered inductively: WriteBlock's loop state is the buffer state)",
               "32-bit platforms", "text of error messages"]


def dec_spec(tier, ops, expl):
    jobs, bounds = dec_jobs(tier, ops)
    return {"jobs": jobs, "bounds": bounds, "assumptions": DEC_ASSUME, "outside": DEC_OUTSIDE, "explanation": expl,
            "reach": {"zzH_decWriteMatch": ["end", "match-ok"], "zzH_decWriteBlock": ["end"]}}


def spec_C04(tier):
    return dec_spec(tier, DEC_OPS, "inductive step for every DecoderBuffer operation: from an arbitrary state satisfying the invariant, one call with "
                    "arbitrary operands leaves Data' = drop(delta<=R, Data) ++ reference expansion, R' = R-delta, window addressable, invariant preserved; "
                    "Read/WriteTo hand out exactly Data[R:...]. Covers histories of any length by induction. Decoder-level interleavings: see C18/C06 harnesses.")


def spec_C05(tier):
    return dec_spec(tier, ["decWriteMatch", "decWriteBlock", "decRejectOne"],
                    "WriteBlock/WriteMatch with LitLen/MatchLen/Offset/Aux ranging over all of uint32 from an arbitrary buffer state: every index, slice and "
                    "conversion check is a solver query (no feasible panic); malformed => error; on error the buffer is drop(delta)++expansion of the k "
                    "consumed sequences only and the caller's arrays are unchanged")


def spec_C17(tier):
    return dec_spec(tier, ["decWriteByte", "decWrite", "decWriteMatch", "decWriteBlock", "decReset", "decRejectOne"],
                    "n/k/l and Off against ghost counts computed from the reference expansion (not from len differences), including calls that "
                    "shrink the buffer and calls that stop with an error")


# ---------------------------------------------------------------- manifest data

TRUST = ("go/ssa lowering (x/tools v0.29.0), the engine's instruction semantics (validated on every run by native replay of path witnesses), "
         "z3 5.1.0, the intrinsics/stubs listed in the evidence, go1.23.5 append growth, 64-bit int")

META = {
    "C04": {"level": "bounded model checking by induction: every DecoderBuffer operation is executed symbolically from an arbitrary state satisfying the "
                     "representation invariant, with all operands symbolic; the solver shows the relational post-condition against the reference LZ77 "
                     "expander and the invariant for all values inside the slice-size bounds, which covers histories of any length",
            "note": "bounds: see evidence.bounds (slice sizes); invariant and writer contract are assumptions. " + TRUST},
    "C05": {"level": "bounded model checking: WriteBlock/WriteMatch with Seq fields over all of uint32 and arbitrary literals from an arbitrary valid buffer state; "
                     "every bounds/slice/conversion check of the real code is a solver query, so 'no panic' and 'malformed => atomic rejection' are decided for all "
                     "field values inside the size bounds", "note": "bounds: see evidence.bounds. " + TRUST},
    "C17": {"level": "bounded model checking by induction: n, k, l and Off are compared with ghost counts derived from the reference expansion for every "
                     "operation from an arbitrary valid state, including paths on which the call shrinks the buffer or stops with an error",
            "note": "bounds: see evidence.bounds. " + TRUST},
}

NOT_APPLICABLE = {}
