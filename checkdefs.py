"""Job definitions per property and tier (bounds live here)."""


def J(id, entry, pkg="lz", **kw):
    params = kw.pop("params", {})
    j = {"id": id, "entry": entry, "pkg": pkg, "params": params}
    j.update(kw)
    return j


def spec(prop, tier):
    f = globals().get("spec_" + prop)
    if f is None:
        raise SystemExit("no check defined for " + prop)
    s = f(tier)
    s.setdefault("reach", {})
    return s


def spec_T00(tier):
    n = 8 if tier == "quick" else 13
    return {"jobs": [J("lcp-%d" % n, "zzH_lcp", params={"n": n})],
            "bounds": {"slice lengths": "0..%d each" % n},
            "reach": {"zzH_lcp": ["lcp-done"]},
            "explanation": "engine self-test"}


DEC_OPS = ["decWriteByte", "decWrite", "decWriteMatch", "decRead", "decWriteTo", "decReset", "decWriteBlock", "decRejectOne"]


def dec_jobs(tier, ops=DEC_OPS):
    P, PB, LP, NL = (5, 7, 4, 3) if tier == "quick" else (8, 10, 6, 4)
    P2, PB2, NL2 = (3, 4, 2) if tier == "quick" else (4, 6, 3)
    base = {"P": P, "PB": PB, "LP": LP, "NS": 1, "NL": NL}
    two = {"P": P2, "PB": PB2, "LP": LP, "NS": 2, "NL": NL2}
    jobs = []
    for op in list(ops) + ["decInit"]:
        if op == "decWriteBlock":
            for ld in range(P + 1):
                for ns in range(2):
                    jobs.append(J("%s-ld%d-ns%d" % (op, ld, ns), "zzH_" + op, params=dict(base, ld=ld, ns=ns)))
            for ld in range(P2 + 1):
                for nl in range(NL2 + 1):
                    jobs.append(J("%s-two-ld%d-nl%d" % (op, ld, nl), "zzH_" + op, params=dict(two, ld=ld, ns=2, nl=nl)))
        elif op in ("decWriteMatch", "decWrite"):
            for ld in range(P + 1):
                jobs.append(J("%s-ld%d" % (op, ld), "zzH_" + op, params=dict(base, ld=ld)))
        else:
            jobs.append(J(op, "zzH_" + op, params=base))
    bounds = {"len(Data), cap(Data)": "0..%d (every pair len<=cap)" % P, "BufferSize": "1..%d" % PB, "WindowSize": "0..BufferSize-1",
              "Write/Read slice": "0..%d bytes" % LP,
              "block": "0..1 sequences with LitLen/MatchLen/Offset/Aux over all of uint32 and 0..%d literal bytes; "
                       "2 sequences with 0..%d literals for len/cap<=%d, BufferSize<=%d" % (NL, NL2, P2, PB2),
              "R": "0..len(Data)", "Off": "len(Data)..2^40", "operations": "one call from an arbitrary state satisfying the invariant (inductive step)"}
    return jobs, bounds


DEC_ASSUME = ["pre-state: arbitrary DecoderBuffer with 0<=R<=len(Data)<=BufferSize, 0<=WindowSize<BufferSize, len(Data)<=Off<=2^40, "
              "len(Data)>=WindowSize or Off==len(Data) (the representation invariant; every harness re-asserts it on the post-state, so it is inductive)",
              "io.Writer stub: accepts k<=len(p) bytes and returns a non-nil error iff k<len(p)",
              "append growth as measured on this toolchain's runtime (go1.23.5 growslice)", "64-bit int"]
DEC_OUTSIDE = ["slices longer than the stated len/cap bounds", "blocks with more than 2 sequences (covered inductively: WriteBlock's loop state is the buffer state)",
               "32-bit platforms", "text of error messages"]


def dec_spec(tier, ops, expl):
    jobs, bounds = dec_jobs(tier, ops)
    return {"jobs": jobs, "bounds": bounds, "assumptions": DEC_ASSUME, "outside": DEC_OUTSIDE, "explanation": expl,
            "reach": {"zzH_decWriteMatch": ["end", "match-ok"], "zzH_decWriteBlock": ["end"]}}


def spec_C04(tier):
    s = _spec_C04_buf(tier)
    # the same relation at Decoder level (Write/WriteByte/WriteBlock/Flush with a working writer): the stream handed to
    # the writer plus the pending output is the reference expansion, each byte once and in order
    jobs, bounds = dcd_jobs(tier, ["dcdWriteByte", "dcdWrite", "dcdFlush", "dcdWriteBlock"], (0,), wf_modes=(1,))
    s["jobs"] += jobs
    s["bounds"]["Decoder level"] = bounds
    s["reach"].update(DCD_REACH)
    return s


def _spec_C04_buf(tier):
    return dec_spec(tier, DEC_OPS, "inductive step for every DecoderBuffer operation: from an arbitrary state satisfying the invariant, one call with "
                    "arbitrary operands leaves Data' = drop(delta<=R, Data) ++ reference expansion, R' = R-delta, window addressable, invariant preserved; "
                    "Read/WriteTo hand out exactly Data[R:...]. Covers histories of any length by induction. Decoder-level interleavings: see C18/C06 harnesses.")


def spec_C05(tier):
    return dec_spec(tier, ["decWriteMatch", "decWriteBlock", "decRejectOne"],
                    "WriteBlock/WriteMatch with LitLen/MatchLen/Offset/Aux ranging over all of uint32 from an arbitrary buffer state: every index, slice and "
                    "conversion check is a solver query (no feasible panic); malformed => error; on error the buffer is drop(delta)++expansion of the k "
                    "consumed sequences only and the caller's arrays are unchanged")


def spec_C17(tier):
    return dec_spec(tier, ["decWriteByte", "decWrite", "decWriteMatch", "decWriteBlock", "decReset", "decRejectOne"],
                    "n/k/l and Off against ghost counts computed from the reference expansion (not from len differences), including calls that "
                    "shrink the buffer and calls that stop with an error")


# ---------------------------------------------------------------- manifest data

TRUST = ("go/ssa lowering (x/tools v0.29.0), the engine's instruction semantics (validated on every run by native replay of path witnesses), "
         "z3 5.1.0, the intrinsics/stubs listed in the evidence, go1.23.5 append growth, 64-bit int")

META = {
    "C04": {"level": "bounded model checking by induction: every DecoderBuffer operation is executed symbolically from an arbitrary state satisfying the "
                     "representation invariant, with all operands symbolic; the solver shows the relational post-condition against the reference LZ77 "
                     "expander and the invariant for all values inside the slice-size bounds, which covers histories of any length",
            "note": "bounds: see evidence.bounds (slice sizes); invariant and writer contract are assumptions. " + TRUST},
    "C05": {"level": "bounded model checking: WriteBlock/WriteMatch with Seq fields over all of uint32 and arbitrary literals from an arbitrary valid buffer state; "
                     "every bounds/slice/conversion check of the real code is a solver query, so 'no panic' and 'malformed => atomic rejection' are decided for all "
                     "field values inside the size bounds", "note": "bounds: see evidence.bounds. " + TRUST},
    "C17": {"level": "bounded model checking by induction: n, k, l and Off are compared with ghost counts derived from the reference expansion for every "
                     "operation from an arbitrary valid state, including paths on which the call shrinks the buffer or stops with an error",
            "note": "bounds: see evidence.bounds. " + TRUST},
}

PNOTE = ("bounds: see evidence.bounds (buffer length per configuration); representation invariant of the parser state and the UF abstraction of the hash "
         "multiplication (refined before any report) are listed in evidence.assumptions. " + TRUST)
PLEVEL = ("bounded model checking by induction over parser states: one Parse of the real code from an ARBITRARY parser state (symbolic data, parse position, sizes, flags, "
          "and completely unconstrained hash/bucket tables) is executed symbolically; because every candidate is re-verified against the bytes the post-condition must "
          "hold for any table content, so one symbolic step covers every Write/ReadFrom/Reset/Shrink/Parse history. ")
META.update({
    "C01": {"level": PLEVEL + "Post-condition: the reference LZ77 expander reproduces Data[W:W+n] from the block.", "note": PNOTE},
    "C02": {"level": PLEVEL + "Post-condition: Offset/MatchLen/Aux/LitLen ranges of every emitted sequence, with WindowSize symbolic over its whole accepted range.", "note": PNOTE},
    "C03": {"level": PLEVEL + "Post-condition: n, W, ErrEmptyBuffer, Block.Len and the NoTrailingLiterals rule.", "note": PNOTE},
    "C14": {"level": PLEVEL + "Here the step is Parse(nil) followed by a regular Parse checked against a decoder that holds the skipped bytes.", "note": PNOTE},
    "C19": {"level": PLEVEL + "Post-condition: right-maximality of every match and the backward clause of BHP/BDHP.", "note": PNOTE},
})

META["C15"] = {"level": "bounded model checking by induction: each ParserBuffer operation (Write, ReadFrom with an arbitrary contract-abiding reader, Shrink, Reset with arbitrary "
                        "len/cap, ReadAt/PeekAt/ByteAt at any int64 offset, Init with any int64 configuration) from an arbitrary state satisfying the representation "
                        "invariant; post-condition relative to the ghost reading Data[i] = stream byte Off+i, invariant re-established",
               "note": "bounds: see evidence.bounds (buffer and slice sizes, reader calls). " + TRUST}

DLEVEL = ("bounded model checking by induction over Decoder states: one Decoder call of the real code from an ARBITRARY DecoderBuffer state satisfying the representation invariant, "
          "with a writer stub whose short writes and errors are symbolic choices; the relation (bytes accepted by the writer) ++ Data[R:] = reference expansion is shown to be preserved, "
          "which covers every interleaving of calls. ")
META.update({
    "C06": {"level": DLEVEL + "Termination: every path of every call must end within a work bound derived from the sizes (writer calls, loop-head visits, SSA steps); a path that exceeds it is a "
                              "non-termination counterexample, confirmed natively under a watchdog.", "note": "bounds: see evidence.bounds. " + TRUST},
    "C07": {"level": DLEVEL + "Acceptance: a block assumed well-formed for the window at the current stream offset must be consumed completely with a nil error by a Decoder with a working writer. "
                              "One recorded finding (KNOWN_FINDINGS.json, KF-C07-oversize) is excluded by an assumption and re-confirmed by witness replay on every run.",
            "note": "bounds: see evidence.bounds; well-formedness is assumed (that parsers emit only such streams is C02). " + TRUST},
    "C18": {"level": DLEVEL + "Faults: up to two writer faults per call at any writer invocation (0..len-1 bytes accepted, failing empty writes); the returned error is the writer's, accepted bytes are the "
                              "next bytes of the expansion, (n,k,l) identify what was consumed, Flush with nil error leaves nothing pending.", "note": "bounds: see evidence.bounds. " + TRUST},
    "C08": {"level": "bounded model checking: (1) inductive step of WrappedParser.Parse from an arbitrary hash-parser state with a reader that chunks arbitrarily, may return data with io.EOF and may "
                     "fail at any call, against the ghost relation delivered ++ Data[W:] ++ future reads = stream; (2) bounded history: two fresh wrapped parsers over the same symbolic stream with "
                     "different chunkings are driven to io.EOF and must emit identical blocks that expand to the stream", "note": "bounds: see evidence.bounds. " + TRUST},
    "C10": {"level": "bounded model checking: Segments/scanLCP executed on symbolic lcp arrays (superset of all texts' tables up to the length bound) and on symbolic texts with reference sa/lcp; "
                     "the solver decides range, membership, completeness/uniqueness for every pair, nesting order and absence of panics for all values",
            "note": "bounds: see evidence.bounds (array/text length). " + TRUST},
})

SLEVEL = ("bounded model checking of the real GSAP/OSAP code over bounded call histories (Write, Parse with symbolic flags, Shrink, Reset, Parse(nil)) on symbolic streams: "
          "all byte strings of the free length (one path per order type) and all strings over an arbitrary two-letter alphabet of the longer length; suffix.Sort is replaced by a "
          "reference sort (assume/guarantee, discharged by C09), everything downstream is the real code. ")
META.update({
    "C11": {"level": SLEVEL + "On every path the cost of the emitted block is compared with the optimum of an independent dynamic program over the bytes.", "note": PNOTE},
    "C12": {"level": SLEVEL + "On every path every emitted match is compared with the longest common prefix against every earlier buffered position, and every literal with the MinMatchLen bound.", "note": PNOTE},
    "C13": {"level": "bounded model checking: a hash parser in an ARBITRARY used state (unconstrained tables and buffer) is Reset (three ways) and then driven in lockstep with a new parser of the same "
                     "configuration on symbolic data, all (n, err, block) compared; GSAP/OSAP with real prior histories under the reference-sort assumption; independence of instances by the "
                     "engine-level check that no package-level object is written on any explored path", "note": PNOTE},
})

META.update({
    "C16": {"level": "bounded model checking: (config clause) NewParser of all seven types executed symbolically over the reflect model for every int64 field value: accepted iff the defaults-completed "
                     "configuration verifies, no panic; (behaviour clause) the inductive-step and bounded-history harnesses of the parsers, the buffer and Wrap, in which every runtime check of the real "
                     "code is a solver query, so 'never panics' and 'only documented errors' are decided for all inputs inside the bounds",
            "note": "bounds: see evidence.bounds; reflect/json/fmt models are listed in evidence.assumptions. " + TRUST},
    "C20": {"level": "bounded model checking over the reflect model: round trip through the real MarshalJSON/UnmarshalJSON/ParseJSON reflection code with a stub codec, Type mismatch rejection, Clone, "
                     "SetDefaults idempotence, reported configuration of new parsers - for all int64 field values of all seven types",
            "note": "JSON text semantics are outside (stub codec); see evidence.assumptions. " + TRUST},
})

NOT_APPLICABLE = {}


# ---------------------------------------------------------------- parsers (inductive step)

def hash_cfgs(tier):
    """(kind, params, L) for the five hash parsers; L = bound on len(Data)."""
    if tier == "quick":
        single = [(2, 1, 4), (3, 1, 5), (4, 0, 5)]
        double = [(2, 3, 1, 4), (3, 4, 1, 5)]
        bucket = [(2, 1, 2, 3), (2, 1, 1, 4), (3, 1, 1, 5)]
    else:
        single = [(2, 1, 5), (2, 2, 4), (3, 1, 6), (3, 2, 5), (4, 1, 6), (5, 0, 7), (8, 1, 9)]
        double = [(2, 3, 1, 5), (2, 4, 2, 4), (3, 4, 1, 6), (3, 6, 1, 6), (4, 8, 1, 7)]
        bucket = [(2, 1, 2, 4), (2, 1, 3, 3), (3, 1, 1, 6), (3, 2, 2, 4), (4, 1, 2, 5)]
    out = []
    for k in ("HP", "BHP"):
        for il, hb, L in single:
            out.append((k, {"inputLen": il, "hashBits": hb}, L))
    for k in ("DHP", "BDHP"):
        for il, il2, hb, L in double:
            out.append((k, {"inputLen": il, "inputLen2": il2, "hashBits": hb}, L))
    for il, hb, bs, L in bucket:
        out.append(("BUP", {"inputLen": il, "hashBits": hb, "bucketSize": bs}, L))
    return out


def parse_jobs(tier, prefix="parse", dl=0):
    jobs = []
    for kind, params, L in hash_cfgs(tier):
        L = max(2, L - dl)
        tag = "-".join("%s%d" % (k[0] + k[-1], v) for k, v in params.items())
        for ld in range(L + 1):
            for w in range(ld + 1):
                if ld >= L - 1:
                    jobs.append(J("%s%s-%s-ld%d-w%d" % (prefix, kind, tag, ld, w), "zzH_%s%s" % (prefix, kind),
                                  params=dict(params, L=L, ld=ld, w=w), uf_mul=True))
            if ld < L - 1:
                jobs.append(J("%s%s-%s-ld%d" % (prefix, kind, tag, ld), "zzH_%s%s" % (prefix, kind), params=dict(params, L=L, ld=ld), uf_mul=True))
        # deeper slices that are cheap because most of the buffer is history (w >= 2): they reach the
        # backward extension of BHP/BDHP and matches whose source was indexed by an earlier call
        if tier == "quick" and dl == 0 and params["inputLen"] == 2 and kind != "BUP":
            for w in range(2, L + 2):
                jobs.append(J("%s%s-%s-ld%d-w%d" % (prefix, kind, tag, L + 1, w), "zzH_%s%s" % (prefix, kind),
                              params=dict(params, L=L + 1, ld=L + 1, w=w), uf_mul=True))
    bounds = {"len(Data)": "0..L arbitrary bytes plus the 7 arbitrary margin bytes; L per configuration below", "W": "0..len(Data)", "BlockSize": "1..unparsed+1",
              "WindowSize, BufferSize": "1..2^32-8 (symbolic, BufferSize >= len(Data))", "ShrinkSize": "0..BufferSize", "Off": "0..2^40", "flags": "0, NoTrailingLiterals",
              "hash tables": "every entry (pos,value) an arbitrary pair of uint32; bucket indexes arbitrary below BucketSize",
              "configurations": ["%s %s L=%d" % (k, p, max(2, L - dl)) for k, p, L in hash_cfgs(tier)],
              "operations": "one Parse from an arbitrary state (inductive step; covers every Write/ReadFrom/Reset/Shrink/Parse history of the five hash parsers, "
                            "because Parse reads only Data, W, sizes and the tables, and the tables are unconstrained)"}
    return jobs, bounds


PARSE_ASSUME = ["pre-state: 0<=W<=len(Data)<=BufferSize, cap(Data)>=len(Data)+7 (margin bytes arbitrary), table lengths = 1<<HashBits, mask/shift/inputLen as hash.init sets them",
                "hash multiplication x*prime abstracted as an uninterpreted function during path exploration (sound: more behaviours); every counterexample is re-decided "
                "with the real 64-bit bvmul before it is reported (CEGAR), and replayed natively",
                "append growth as measured on go1.23.5", "64-bit int"]
PARSE_OUTSIDE = ["buffers longer than the bound (8-byte extension loops are reached by the kernel harnesses of C19 only)", "GSAP/OSAP streams longer than the bound; GSAP/OSAP with the real suffix.Sort (C09)",
                 "hash tables larger than 4 entries (content is arbitrary, so size only changes which slot is read)", "32-bit platforms"]
PARSE_REACH = {"zzH_parse" + k: ["end", "match"] for k in ("HP", "BHP", "DHP", "BDHP", "BUP")}


def parse_spec(tier, expl, nil=False):
    jobs, bounds = parse_jobs(tier)
    reach = dict(PARSE_REACH)
    j3, b3 = sap_jobs(tier, lite=True)
    jobs += j3
    bounds["GSAP/OSAP (bounded histories)"] = b3
    reach.update(SAP_REACH)
    if nil:
        j2, _ = parse_jobs(tier, prefix="parseNil", dl=1)
        jobs += j2
        reach.update({"zzH_parseNil" + k: ["end", "match-after-skip"] for k in ("HP", "BHP", "DHP", "BDHP", "BUP")})
    return {"jobs": jobs, "bounds": bounds, "assumptions": PARSE_ASSUME + SAP_ASSUME, "outside": PARSE_OUTSIDE, "explanation": expl, "reach": reach}


def spec_C01(tier):
    s = parse_spec(tier, "round trip: the reference LZ77 expander, seeded with Data[:W], applied to the block Parse returns must give exactly Data[W:W+n]; "
                   "kernels lcp/getLE64 (used to verify candidates at lengths the parser harnesses do not reach) against references")
    j, b = kernel_jobs(tier, ["lcp", "getLE64"])
    s["jobs"] += j
    s["bounds"].update(b)
    j, b = long_jobs(tier)
    s["jobs"] += j
    s["bounds"].update(b)
    s["reach"].update({"zzH_long" + k: ["end", "long-match"] for k in ("HP", "BHP", "DHP", "BDHP")})
    j, b = copy_jobs(tier)
    s["jobs"] += j
    s["bounds"].update(b)
    s["reach"].update({"zzH_copy" + k: ["end", "copy-match"] for k in ("HP", "BHP", "DHP", "BDHP")})
    return s


def spec_C02(tier):
    return parse_spec(tier, "every emitted sequence: 1 <= Offset <= WindowSize, Offset <= Off + buffer position of the match (stream bytes since Reset), "
                      "MatchLen >= min(3, InputLen), Aux == 0, sum of LitLen <= len(Literals); WindowSize symbolic over 1..2^32-8, i.e. smaller, equal and larger than the buffer")


def spec_C03(tier):
    return parse_spec(tier, "accounting: flags 0 => n == Block.Len(); unparsed data => 1 <= n <= BlockSize, W' = W+n, the block represents exactly Data[W:W+n]; "
                      "ErrEmptyBuffer iff W == len(Data), then n == 0 and the block is emptied; NoTrailingLiterals with a sequence => no trailing literals and W' at the "
                      "end of the last match. Contiguity of consecutive blocks follows by induction from W' = W+n")


def spec_C14(tier):
    jobs, bounds = parse_jobs(tier, prefix="parseNil")
    j3, b3 = sap_jobs(tier, scripts=(5, 6, 7))
    jobs += j3
    bounds["GSAP/OSAP (bounded histories)"] = b3
    return {"jobs": jobs, "bounds": bounds, "assumptions": PARSE_ASSUME + SAP_ASSUME, "outside": PARSE_OUTSIDE,
            "explanation": "Parse(nil, flags) from an arbitrary state: n == min(BlockSize, unparsed), W' = W+n, ErrEmptyBuffer iff n == 0; then a regular Parse whose block "
                           "must be correct for a decoder holding the skipped bytes verbatim (reference expander seeded with Data[:W'])",
            "reach": dict({"zzH_parseNil" + k: ["end", "match-after-skip"] for k in ("HP", "BHP", "DHP", "BDHP", "BUP")},
                          zzH_gsapScript=["end", "skipped"], zzH_osapScript=["end", "skipped"])}



# ---------------------------------------------------------------- ParserBuffer (C15)

def pb_jobs(tier):
    P, CX, PB, LP, RD = (4, 2, 6, 4, 2) if tier == "quick" else (7, 3, 10, 7, 3)
    base = {"P": P, "CX": CX, "PB": PB, "LP": LP, "RD": RD}
    jobs = []
    for op in ("pbWrite", "pbReadFrom", "pbShrink", "pbReset", "pbReadAt"):
        for ld in range(P + 1):
            jobs.append(J("%s-ld%d" % (op, ld), "zzH_" + op, params=dict(base, ld=ld)))
    jobs.append(J("pbInit", "zzH_pbInit", params=base))
    bounds = {"len(Data)": "0..%d, cap = len+7+(0..%d)" % (P, CX), "BufferSize": "1..%d" % PB, "ShrinkSize": "0..BufferSize-1", "W": "0..len(Data)", "Off": "0..2^40",
              "Write/ReadAt slice, Reset data": "0..%d bytes (Reset data with spare capacity 0..8)" % LP, "absolute offset x": "all of int64",
              "reader": "up to %d Read calls, each delivering any k <= len(p) arbitrary bytes with nil / io.EOF / failure (k >= 1 or err != nil), then (0, io.EOF)" % RD,
              "Init": "all four BufConfig fields over all of int64", "operations": "one call from an arbitrary state satisfying the invariant (inductive step)"}
    return jobs, bounds


def shrink_jobs(tier):
    L = 3 if tier == "quick" else 4
    kinds = [("HP", {"inputLen": 2, "hashBits": 1}), ("DHP", {"inputLen": 2, "inputLen2": 3, "hashBits": 1}), ("BUP", {"inputLen": 2, "hashBits": 1, "bucketSize": 2}),
             ("BUP", {"inputLen": 2, "hashBits": 1, "bucketSize": 3})]
    if tier != "quick":
        kinds += [("BHP", {"inputLen": 3, "hashBits": 1}), ("BDHP", {"inputLen": 2, "inputLen2": 4, "hashBits": 1}), ("HP", {"inputLen": 3, "hashBits": 2})]
    jobs = []
    for kind, kp in kinds:
        tag = "-".join("%s%d" % (k[0] + k[-1], v) for k, v in kp.items())
        Lk = min(L, 3) if kind == "BUP" else L  # arbitrary buckets: paths multiply quickly
        for ld in range(Lk + 1):
            for w in range(ld + 1):
                jobs.append(J("shrink%s-%s-ld%d-w%d" % (kind, tag, ld, w), "zzH_shrink" + kind, params=dict(kp, L=Lk, ld=ld, w=w), uf_mul=True))
    return jobs, {"Shrink of the parsers (re-basing of the search structures)": "arbitrary parser state with len(Data) 0..%d (BUP: 0..3), arbitrary tables / buckets, ShrinkSize symbolic; "
                  "Shrink, then one Parse checked like C01-C03; kinds %s" % (L, [k + str(p) for k, p in kinds])}


def spec_C15(tier):
    jobs, bounds = pb_jobs(tier)
    j, b = shrink_jobs(tier)
    jobs += j
    bounds.update(b)
    return {"jobs": jobs, "bounds": bounds,
            "assumptions": ["pre-state: 0<=W<=len(Data)<=BufferSize, 0<=ShrinkSize<BufferSize (what Verify accepts), Off>=0, cap(Data)>=len(Data)+7 unless the buffer is empty "
                            "(re-asserted on every post-state, so inductive)", "io.Reader contract: k <= len(p) and (k >= 1 or err != nil)",
                            "append/make growth as on go1.23.5", "64-bit int"],
            "outside": ["buffers larger than the bound; BufferSize above the bound (grow's 1024-byte floor is then never the minimum)", "readers violating the io.Reader contract (0, nil)"],
            "explanation": "ghost reading: Data[i] is stream byte Off+i; each operation must keep that mapping: Write/ReadFrom append exactly what they report, Shrink drops exactly "
                           "delta oldest bytes and adds delta to Off, ReadAt/PeekAt/ByteAt at any int64 offset return Data[x-Off] or the documented error without panicking",
            "reach": {"zzH_pbInit": ["end", "accepted"]}}


# ---------------------------------------------------------------- Decoder (C06, C07, C18)

def dcd_jobs(tier, ops, wfs, wf_modes=(0, 1)):
    """ops: subset of dcdWriteByte/dcdWrite/dcdFlush/dcdWriteBlock; wfs: writer fault budgets; wf_modes: block well-formedness modes"""
    P, PB, LP, NS, NL, MM = (4, 6, 4, 2, 2, 6) if tier == "quick" else (6, 8, 6, 2, 3, 8)
    base = {"P": P, "PB": PB, "LP": LP, "NS": NS, "NL": NL, "MM": MM}
    P2 = {"P": 2, "PB": 4, "NL": 1, "MM": 3} if tier == "quick" else {"P": 3, "PB": 5, "NL": 2, "MM": 4}
    jobs = []
    for op in ops:
        for WF in wfs:
            for ld in range(P + 1):
                if op == "dcdWriteBlock":
                    for wf in wf_modes:
                        for ns in range(NS + 1):
                            pp = dict(base, WF=WF, ld=ld, wf=wf, ns=ns)
                            if ns == 2:
                                # two sequences: smaller geometry (paths multiply)
                                pp.update(P2)
                                if ld > pp["P"]:
                                    continue
                            jobs.append(J("%s-wf%d-WF%d-ld%d-ns%d" % (op, wf, WF, ld, ns), "zzH_" + op, params=pp, nonterm=True, max_steps=400000, loop_cap=200))
                else:
                    jobs.append(J("%s-WF%d-ld%d" % (op, WF, ld), "zzH_" + op, params=dict(base, WF=WF, ld=ld), nonterm=True, max_steps=400000, loop_cap=200))
    jobs.append(J("decInit", "zzH_decInit", params=base))
    bounds = {"len(Data), cap(Data)": "0..%d" % P, "BufferSize": "1..%d" % PB, "WindowSize": "0..BufferSize-1", "R": "0..len(Data)", "Off": "len(Data)..2^40",
              "Init (base case)": "DecoderConfig fields over all of int64, fresh and used buffers",
              "Write slice": "0..%d bytes" % LP, "block": "0..%d sequences, 0..%d literals; Seq fields over all of uint32 (wf=0) or well-formed for the window with MatchLen <= %d (wf=1); "
              "two sequences only for the smaller geometry %s" % (NS, NL, MM, P2),
              "writer": "accepts any k <= len(p) per call, error iff k < len(p); fault budgets %s per Decoder call" % (list(wfs),),
              "operations": "one Decoder call from an arbitrary state satisfying the buffer invariant (inductive step over the ghost relation accepted ++ Data[R:] = expansion)"}
    return jobs, bounds


DCD_REACH = {"zzH_dcdWriteBlock": ["end", "block-ok"]}


def spec_C06(tier):
    jobs, bounds = dcd_jobs(tier, ["dcdWriteByte", "dcdWrite", "dcdFlush", "dcdWriteBlock"], (0, 1))
    # DecoderBuffer calls (doubling copy loops) under the same work bound
    j2, b2 = dec_jobs(tier, ["decWriteMatch", "decWriteBlock", "decWrite", "decRead", "decWriteTo"])
    for j in j2:
        if j["entry"] == "zzH_decWriteBlock" and j["params"].get("NS") == 2:
            continue
        j.update(nonterm=True, max_steps=400000, loop_cap=200)
        jobs.append(j)
    bounds["DecoderBuffer level"] = b2
    return {"jobs": jobs, "bounds": bounds, "assumptions": DEC_ASSUME + ["the writer returns (it is a stub); non-termination = more than 48 writer calls, or more than 200 visits of one loop head "
            "/ 400000 SSA steps inside one Decoder call (legitimate calls within the bounds need < 20 writer calls)"], "outside": DEC_OUTSIDE,
            "explanation": "termination of every Decoder call for every argument size relative to BufferSize-WindowSize and BufferSize, valid or not, with and without writer faults: "
                           "a path that exceeds the work bound is reported as non-termination and confirmed natively under a watchdog", "reach": DCD_REACH}


def spec_C07(tier):
    jobs, bounds = dcd_jobs(tier, ["dcdWriteByte", "dcdWrite", "dcdWriteBlock"], (0,), wf_modes=(1,))
    return {"jobs": jobs, "bounds": bounds, "assumptions": DEC_ASSUME + ["stream well-formedness in the sense of C02 at the current stream offset (assumed; that the parsers emit only such streams is C02)"],
            "outside": DEC_OUTSIDE + ["parser in the loop (composition C02 => C07)"],
            "explanation": "a block that is well-formed for window W at the current stream position, written to a Decoder with WindowSize W in an arbitrary state with a working writer, "
                           "must be accepted (err == nil, everything consumed) and keep the ghost relation; plain Write/WriteByte never refuse",
            "reach": DCD_REACH}


def spec_C18(tier):
    jobs, bounds = dcd_jobs(tier, ["dcdWriteByte", "dcdWrite", "dcdFlush", "dcdWriteBlock"], (2,), wf_modes=(1,))
    return {"jobs": jobs, "bounds": bounds, "assumptions": DEC_ASSUME, "outside": DEC_OUTSIDE,
            "explanation": "writer faults (short writes with error, failing empty writes; up to 2 per Decoder call, any placement): the writer's error is returned, the bytes it accepted "
                           "are exactly the next bytes of the reference expansion (ghost relation accepted ++ Data[R:] = expansion is inductive), k and l identify exactly what was "
                           "consumed so a retry of Sequences[k:], Literals[l:] continues the same stream; Flush with nil error leaves nothing pending",
            "reach": DCD_REACH}


# ---------------------------------------------------------------- Wrap (C08)

def spec_C08(tier):
    L, PB, BS, RD, N, PBc = (3, 4, 3, 2, 5, 4) if tier == "quick" else (4, 5, 4, 3, 7, 4)
    jobs = []
    for il, hb in ((2, 0), (3, 0)):
        for ld in range(L + 1):
            for w in range(ld + 1):
                jobs.append(J("wrapStep-il%d-ld%d-w%d" % (il, ld, w), "zzH_wrapStep",
                              params={"L": L, "ld": ld, "w": w, "PB": PB, "BS": BS, "RD": RD, "inputLen": il, "hashBits": hb}, loop_cap=400))
    for n in range(N + 1):
        jobs.append(J("wrapChunk-N%d" % n, "zzH_wrapChunk", params={"N": N, "N_": n, "PB": PBc, "BS": 3, "inputLen": 2, "hashBits": 0}, loop_cap=400))
    for j in jobs:
        if j["entry"] == "zzH_wrapChunk":
            j["params"]["N"] = j["params"].pop("N_")  # one job per exact stream length
    return {"jobs": jobs,
            "bounds": {"wrapStep": "one WrappedParser.Parse from an arbitrary hash-parser state: len(Data) 0..%d, W 0..len, BufferSize len..%d, ShrinkSize 0..BufferSize-1, BlockSize 1..%d, "
                                   "arbitrary hash table (InputLen 2 and 3, HashBits 0), both flag values; reader: up to %d calls, each any k <= len(p) fresh arbitrary bytes with nil / io.EOF / "
                                   "failure, then (0, io.EOF)" % (L, PB, BS, RD),
                       "wrapChunk": "fresh HP parsers (InputLen 2, HashBits 0), stream of exactly 0..%d arbitrary bytes, BufferSize 1..%d, ShrinkSize 0..BufferSize-1, WindowSize 1..%d, BlockSize 1..3; "
                                    "reader a fills every request, reader b returns any 1..len(p) bytes per call and may deliver the last chunk together with io.EOF; run to EOF, then Parse once more" % (N, PBc, PBc + 1)},
            "assumptions": PARSE_ASSUME[:1] + ["io.Reader contract: k <= len(p) and (k >= 1 or err != nil)", "wrapStep is inductive over the ghost relation delivered ++ Data[W:] ++ future reads = reader's stream; "
                                               "correctness of the inner Parse for arbitrary tables is C01-C03", "64-bit int, go1.23.5 append growth"],
            "outside": ["streams longer than the bound in the chunking comparison", "parsers other than HP under Wrap (the Wrap loop only uses the Parser interface; the other parsers' Shrink/ReadFrom are the same ParserBuffer code plus their own re-basing, covered by C01/C13 harnesses)",
                        "a transient reader error delivered together with data is swallowed by wrap.go when k > 0: the property does not demand that it is surfaced"],
            "explanation": "no loss, no duplication, error only after everything read was delivered, error is the reader's, EOF repeated, block sequence independent of chunking",
            "reach": {"zzH_wrapStep": ["end", "err", "refilled"], "zzH_wrapChunk": ["end"]}}


# ---------------------------------------------------------------- suffix.Segments (C10)

def spec_C10(tier):
    NA, NT = (6, 5) if tier == "quick" else (7, 6)
    jobs = []
    for mode, N in (("segArray", NA), ("segText", NT)):
        for n in range(N + 1):
            for mn in range(n + 2):
                for mx in range(mn, n + 3):
                    jobs.append(J("%s-n%d-min%d-max%d" % (mode, n, mn, mx), "zzH_" + mode, pkg="suffix", params={"n": n, "minLen": mn, "mx": mx}))
    return {"jobs": jobs,
            "bounds": {"array mode": "every lcp array of length 0..%d with lcp[0] = 0 and values 0..n-1 (a superset of the lcp tables of all texts of that length), sa = distinct labels" % NA,
                       "text mode": "every text of 0..%d arbitrary bytes; suffix array by a reference insertion sort and lcp by naive comparison (one path per order type of the bytes)" % NT,
                       "minLen, maxLen": "0 <= minLen <= maxLen, each from {0..n+1, MaxInt32}; lcp values are <= n-1, so larger bounds behave like n+1"},
            "assumptions": ["callback does not permute the segment (the property is about which suffixes are reported; OSAP's sorting callback is exercised in C11)", "64-bit int"],
            "outside": ["texts / arrays longer than the bound", "minLen < 0 or maxLen > MaxInt32 (documented panics)"],
            "explanation": "Segments is executed on symbolic lcp values; the callback log is compared with the interval structure: range of m, members share m bytes "
                           "(all lcp inside >= m), every pair with common prefix c >= minLen in exactly one callback with m = min(c, maxLen), nested groups first, no panic (n = 0 included)",
            "reach": {"zzH_segArray": ["end", "nested"], "zzH_segText": ["end", "nested"]}}


# ---------------------------------------------------------------- GSAP / OSAP (assume/guarantee bounded histories)

SAP_STUBS = {"github.com/ulikunitz/lz/suffix.Sort": "zzRefSuffixSort"}


def sap_cfgs(tier, kind):
    """(tag, params) geometry / limits of the suffix-array parser jobs"""
    cfgs = [("big", dict(B=8, S=4, Wn=8, bs=8, mm=2)),
            ("blk2", dict(B=8, S=4, Wn=8, bs=2, mm=2)),
            ("win2", dict(B=8, S=2, Wn=2, bs=3, mm=2)),
            ("mm3", dict(B=8, S=3, Wn=8, bs=4, mm=3)),
            ("tight", dict(B=5, S=1, Wn=4, bs=2, mm=2))]
    if kind == "osap":
        cfgs += [("max2", dict(B=8, S=4, Wn=8, bs=8, mm=2, MM=2)), ("win1", dict(B=8, S=2, Wn=1, bs=4, mm=2, MM=3))]
    if tier != "quick":
        # BlockSize 1: one Parse per byte; the flags are fixed to 0 there (2^calls flag combinations otherwise)
        cfgs += [("blk1", dict(B=8, S=0, Wn=3, bs=1, mm=2, flagsfix=0)), ("mm4", dict(B=8, S=4, Wn=8, bs=8, mm=4))]
    return cfgs


def sap_jobs(tier, kinds=("gsap", "osap"), scripts=(0, 1, 2, 3, 4), N=None, lite=False):
    """lite: the subset of configurations used by the properties that share these runs with C11/C12 (quick tier only)"""
    if N is None:
        N = 5 if tier == "quick" else 6
    NB = 8 if tier == "quick" else 10
    jobs = []
    for kind in kinds:
        for tag, cp in sap_cfgs(tier, kind):
            if lite and tag not in ("blk2", "win2", "tight", "win1"):
                continue
            for sc in scripts:
                ks = [0] if sc in (0, 5) else ([3] if tier == "quick" else [2, 3, 4])
                for k in ks:
                    if cp["B"] < N and sc in (0, 1, 5, 6, 7):
                        continue  # the script needs the whole stream in the buffer
                    jobs.append(J("%s-%s-s%d-k%d" % (kind, tag, sc, k), "zzH_%sScript" % kind, params=dict(cp, N=N, k=k, script=sc), stubs=SAP_STUBS))
        # second input family: streams over an arbitrary two-letter alphabet (2^N paths), which reaches longer streams
        for tag, cp in sap_bin_cfgs(tier, kind, NB):
            if lite and tag not in ("blk3", "win3"):
                continue
            for sc in scripts:
                ks = [0] if sc in (0, 5) else ([NB // 2] if tier == "quick" else [NB // 2 - 1, NB // 2 + 1])
                for k in ks:
                    if cp["B"] < NB and sc in (0, 1, 5, 6, 7):
                        continue
                    jobs.append(J("%s-bin-%s-s%d-k%d" % (kind, tag, sc, k), "zzH_%sScript" % kind, params=dict(cp, N=NB, k=k, script=sc, alpha=2), stubs=SAP_STUBS))
    bounds = {"stream (free bytes)": "%d arbitrary bytes (one path per order type of the bytes: which are equal, how the distinct ones are ordered)" % N,
              "stream (two letters)": "%d bytes over an arbitrary two-letter alphabet c0 < c1 (all 2^%d patterns, all byte values for the letters)" % (NB, NB),
              "scripts": "0: Write Parse*; 1: Write Parse* Write Parse*; 2: Write Parse* Shrink Write Parse*; 3: Write Parse Reset(data) Parse*; 4: Write Parse* Reset(nil) Write Parse*; "
                         "5: Write Parse(nil) Parse*; 6: Write Parse Parse(nil) Parse* Write Parse*; 7: Write Parse Write Parse(nil) Parse*; flags (0 / NoTrailingLiterals) symbolic per Parse call",
              "configurations (free bytes)": {"%s/%s" % (k, t): p for k in kinds for t, p in sap_cfgs(tier, k)},
              "configurations (two letters)": {"%s/%s" % (k, t): p for k in kinds for t, p in sap_bin_cfgs(tier, k, NB)}}
    return jobs, bounds


def sap_bin_cfgs(tier, kind, NB):
    cfgs = [("big", dict(B=NB + 2, S=4, Wn=NB + 2, bs=NB + 2, mm=2)),
            ("blk3", dict(B=NB + 2, S=3, Wn=NB + 2, bs=3, mm=2)),
            ("win3", dict(B=NB + 2, S=2, Wn=3, bs=4, mm=2)),
            ("tight", dict(B=NB - 2, S=2, Wn=NB, bs=4, mm=3))]
    if tier != "quick":
        cfgs += [("mm4", dict(B=NB + 2, S=4, Wn=NB + 2, bs=6, mm=4))]
    return cfgs


SAP_ASSUME = ["assume/guarantee: suffix.Sort is replaced by a reference insertion sort with naive suffix comparison (forks on byte comparisons, so the suffix array is concrete per path); "
              "that suffix.Sort returns the same array is C09's claim", "parsers are constructed by ParserBuffer.Init + direct assignment of the verified configuration (NewParser's "
              "reflection path is C16/C20's subject)", "64-bit int, go1.23.5 append growth"]
SAP_REACH = {"zzH_gsapScript": ["end", "match"], "zzH_osapScript": ["end", "match"]}


def spec_C11(tier):
    jobs, bounds = sap_jobs(tier, kinds=("osap",))
    j, b = kernel_jobs(tier, ["xzcost"])
    jobs += j
    bounds.update(b)
    return {"jobs": jobs, "bounds": bounds, "assumptions": SAP_ASSUME + ["cost model as configured: XZCost per match, 9 bits per literal"],
            "outside": ["streams longer than the bound", "MaxMatchLen between 4 and 272 (only 2, 3 and 273 are configured)"],
            "explanation": "end to end: real suffix.LCP, suffix.Segments, edge closure and dynamic program; on every path (order type) the cost of the emitted block with flags 0 is "
                           "compared with the optimum of an independent O(n*window) dynamic program over the bytes (matches allowed iff the bytes agree, MinMatchLen..MaxMatchLen, "
                           "offset <= WindowSize, source inside the buffer); blocks after Shrink, Reset and blocks reusing edges included", "reach": {"zzH_osapScript": ["end", "match"]}}


def spec_C12(tier):
    jobs, bounds = sap_jobs(tier, kinds=("gsap",))
    j, b = kernel_jobs(tier, ["lcp", "bitset"], big_bitset=True)
    jobs += j
    bounds.update(b)
    # blocks re-parsed after NoTrailingLiterals: every Parse is called with the flag; 12 bytes over two letters (the first three pinned per job)
    for pins in range(8):
        pp = dict(B=16, S=4, Wn=16, bs=5, mm=3, N=12, k=0, script=0, alpha=2, flagsfix=1)
        for i in range(3):
            pp["pin[%d]" % i] = (pins >> i) & 1
        jobs.append(J("gsap-ntl-%d" % pins, "zzH_gsapScript", params=pp, stubs=SAP_STUBS))
    if tier != "quick":
        for pins in range(8):
            pp = dict(B=16, S=4, Wn=16, bs=4, mm=2, N=12, k=0, script=0, alpha=2, flagsfix=1)
            for i in range(3):
                pp["pin[%d]" % i] = (pins >> i) & 1
            jobs.append(J("gsap-ntl2-%d" % pins, "zzH_gsapScript", params=pp, stubs=SAP_STUBS))
    bounds["NoTrailingLiterals streams"] = "all 12-byte streams over an arbitrary two-letter alphabet, BlockSize 5, MinMatchLen 3, every Parse with NoTrailingLiterals (uncovered bytes are parsed again)"
    return {"jobs": jobs, "bounds": bounds, "assumptions": SAP_ASSUME,
            "outside": ["streams longer than the bound (suffix ranks stay inside one bitset word; multi-word bitsets: see the bitset kernel job)", "histories with Parse(nil)"],
            "explanation": "for every emitted match at position q and every earlier buffered position f the common prefix clipped at the block end is <= MatchLen; when BufferSize <= WindowSize "
                           "every literal position has no earlier position offering MinMatchLen; histories with second fill, Shrink, Reset so that the suffix array is rebuilt",
            "reach": {"zzH_gsapScript": ["end", "match"]}}


# ---------------------------------------------------------------- Reset vs new parser (C13)

def spec_C13(tier):
    N = 5 if tier == "quick" else 7
    jobs = []
    kinds = [("HP", {"inputLen": 2, "hashBits": 1}), ("HP", {"inputLen": 3, "hashBits": 2}), ("BHP", {"inputLen": 2, "hashBits": 1}),
             ("DHP", {"inputLen": 2, "inputLen2": 3, "hashBits": 1}), ("BDHP", {"inputLen": 2, "inputLen2": 3, "hashBits": 1}),
             ("BUP", {"inputLen": 2, "hashBits": 1, "bucketSize": 2})]
    if tier != "quick":
        kinds += [("DHP", {"inputLen": 3, "inputLen2": 4, "hashBits": 2}), ("BDHP", {"inputLen": 3, "inputLen2": 5, "hashBits": 1}), ("BUP", {"inputLen": 3, "hashBits": 0, "bucketSize": 3})]
    for kind, kp in kinds:
        tag = "-".join("%s%d" % (k[0] + k[-1], v) for k, v in kp.items())
        for mode in (0, 1, 2):
            for ld, w in ((3, 1),) if tier == "quick" else ((0, 0), (3, 1), (3, 3)):
                for bs in (2, N):
                    for PB in ((N + 3,) if mode != 2 and tier == "quick" else (N, N + 3)):
                        jobs.append(J("reset%s-%s-m%d-ld%d-w%d-bs%d-B%d" % (kind, tag, mode, ld, w, bs, PB), "zzH_reset" + kind,
                                      params=dict(kp, L=3, N=N, ld=ld, w=w, nn=N, mode=mode, bs=bs - 1, PB=PB, Wn=64 if bs == N else 3), uf_mul=True))
        # with Parse(nil) among the calls and a second fill after the first drain (shorter first fill)
        for mode in (1, 2):
            if kind == "BUP" and tier == "quick":
                continue
            for wn in (64, 3):
                jobs.append(J("reset%s-%s-m%d-nil-fill2-W%d" % (kind, tag, mode, wn), "zzH_reset" + kind,
                              params=dict(kp, L=5, N=4, ld=5, w=1, nn=4, mode=mode, bs=4, PB=N + 3, withNil=1, N2=3, Wn=wn), uf_mul=True))
    NS = 5 if tier == "quick" else 6
    for kind in ("GSAP", "OSAP"):
        pf = 0  # flags of the calls before the Reset are fixed to 0
        for tag, cp in sap_cfgs(tier, kind.lower())[1:3] if tier == "quick" else sap_cfgs(tier, kind.lower())[:4]:
            for pre in (0, 1, 2, 3):
                for mode in (0, 1):
                    jobs.append(J("reset%s-%s-pre%d-m%d" % (kind, tag, pre, mode), "zzH_reset" + kind, params=dict(cp, N=NS, k=2, pre=pre, mode=mode, preFlags=pf), stubs=SAP_STUBS))
        # two-letter streams: longer prior history and longer data after the Reset
        NB = 8 if tier == "quick" else 10
        for tag, cp in sap_bin_cfgs(tier, kind.lower(), NB)[:2]:
            for pre in (0, 2, 3):
                jobs.append(J("reset%s-bin-%s-pre%d" % (kind, tag, pre), "zzH_reset" + kind,
                              params=dict(cp, N=NB, k=NB // 2 + (1 if pre == 3 else 0), pre=pre, mode=0, alpha=2, preFlags=pf), stubs=SAP_STUBS))
    jk, bk = kernel_jobs(tier, ["bitset"])
    jobs += jk
    return {"jobs": jobs,
            "bounds": {"bitset kernel": bk["bitset kernel"], "hash parsers": "used parser = ARBITRARY state (0 or 3 buffered bytes with arbitrary margin, every table entry an arbitrary uint32 pair: whatever it processed before); "
                                       "then Reset(data with margin) / Reset(data without margin, copied) / Reset(nil)+Write with %d arbitrary bytes; then lockstep Parse to ErrEmptyBuffer "
                                       "with symbolic flags against a new parser; BlockSize 2 and %d, BufferSize %d and %d, WindowSize 3 and 64; variants whose first call after the Reset is Parse(nil) and that "
                                       "write 3 more bytes after the first drain" % (N, N, N, N + 3),
                       "GSAP/OSAP": "real prior history on %d arbitrary bytes split 2/%d (and on 8 bytes over a two-letter alphabet split 4/4): Write Parse* [Shrink] or Write Parse(one block), then Reset(data) or Reset(nil)+Write, lockstep against a new parser" % (NS, NS - 2),
                       "configurations": [k + " " + str(p) for k, p in kinds]},
            "assumptions": PARSE_ASSUME + SAP_ASSUME + ["'other instances used concurrently': the module has no goroutines, locks or channels; the engine checks on every explored path of every harness "
                           "that no object allocated by package initialisation (package-level variables, error values) is written, so instances can only share what the caller passes to both; "
                           "goroutine schedules themselves are not explored (outside this technique)"],
            "outside": ["data longer than the bound after Reset (a stale entry must survive in a slot the new data does not overwrite: with arbitrary pre-tables every slot is stale, so short data suffices)",
                        "GSAP bitset regrowth across Reset needs suffix ranks >= 64 (buffers >= 65 bytes): see the bitset kernel job", "goroutine schedules"],
            "explanation": "Reset equivalence by lockstep comparison of (n, err, Sequences, Literals) for every call after the Reset",
            "reach": {"zzH_reset" + k: ["end", "match"] for k in ("HP", "BHP", "DHP", "BDHP", "BUP", "GSAP", "OSAP")}}


# ---------------------------------------------------------------- kernels and the run clause of C19

def kernel_jobs(tier, names, big_bitset=False):
    n = 9 if tier == "quick" else 13
    jobs = []
    for nm in names:
        if nm in ("lcp", "lcs"):
            for la in range(n + 1):
                jobs.append(J("%s-n%d-la%d" % (nm, n, la), "zzH_" + nm, params={"n": n, "la": la}))
        elif nm == "bitset":
            for n1 in (1, 2):
                for n2 in (1, 2):  # three inserts after the clear: the solver returns unknown (timeouts) on the assertion
                    if tier == "quick" and n1 == 2 and n2 == 2 and not big_bitset:
                        continue  # ~7 min as a single job: in the quick tier only C12 runs it (it is the job that finds the reverse of D5)
                    jobs.append(J("bitset-%d-%d" % (n1, n2), "zzH_bitset", params={"n1": n1, "n2": n2}, no_phi_conc=True))
        elif nm == "matchLen":
            for la in range(n + 1):
                jobs.append(J("%s-n%d-la%d" % (nm, n, la), "zzH_" + nm, pkg="suffix", params={"n": n, "la": la}))
        else:
            jobs.append(J(nm, "zzH_" + nm))
    b = {"kernels": "%s against three-line references for all byte values and every pair of slice lengths 0..%d" % (", ".join(x for x in names if x != "bitset"), n)}
    if "bitset" in names:
        b["bitset kernel"] = "1..2 inserts, clear, 1..%d inserts at arbitrary positions below 192 (three words), then memberBefore/memberAfter at an arbitrary position, against a set model" % 2
    return jobs, b


def run_jobs(tier):
    lays = [dict(pre=1, lead=0, n=32, tail=1, post=1), dict(pre=3, lead=0, n=32, tail=0, post=0), dict(pre=0, lead=3, n=32, tail=0, post=0)]
    if tier != "quick":
        lays += [dict(pre=2, lead=1, n=33, tail=3, post=2), dict(pre=0, lead=0, n=40, tail=0, post=0)]
    ils = (2, 3, 8) if tier == "quick" else (2, 3, 4, 5, 6, 7, 8)
    jobs = []
    for li, lay in enumerate(lays):
        for il in ils:
            for kind in ("HP", "BHP"):
                jobs.append(J("run%s-il%d-lay%d" % (kind, il, li), "zzH_run" + kind, params=dict(lay, inputLen=il, hashBits=1), uf_mul=True))
            for hb, bsz in ((1, 2), (2, 2), (1, 3)):
                jobs.append(J("runBUP-il%d-hb%d-bs%d-lay%d" % (il, hb, bsz, li), "zzH_runBUP", params=dict(lay, inputLen=il, hashBits=hb, bucketSize=bsz), uf_mul=True))
        for il, il2 in ((2, 3), (3, 8), (4, 6)) if tier == "quick" else ((2, 3), (2, 8), (3, 4), (3, 8), (4, 6), (5, 8), (7, 8)):
            for kind in ("DHP", "BDHP"):
                jobs.append(J("run%s-il%d-%d-lay%d" % (kind, il, il2, li), "zzH_run" + kind, params=dict(lay, inputLen=il, inputLen2=il2, hashBits=1), uf_mul=True))
        for mm in (2, 3, 8):
            jobs.append(J("runGSAP-mm%d-lay%d" % (mm, li), "zzH_runGSAP", params=dict(lay, B=64, S=8, Wn=2 if mm == 2 else 48, bs=lay["n"], mm=mm), stubs=SAP_STUBS))
            jobs.append(J("runOSAP-mm%d-lay%d" % (mm, li), "zzH_runOSAP", params=dict(lay, B=64, S=8, Wn=1 if mm == 2 else 48, bs=lay["n"], mm=mm, MM=273 if mm != 3 else 8), stubs=SAP_STUBS))
    return jobs, {"run clause": "layouts (arbitrary bytes before / run bytes before the block / block / run bytes behind / arbitrary bytes behind) %s; the run byte c is arbitrary (0x00 included); "
                                "hash parsers: arbitrary tables (BUP: tables produced by a real history on the same bytes, with 3 arbitrary bytes in front), InputLen %s, WindowSize symbolic from 1, flags 0; GSAP: MinMatchLen 2/3/8, WindowSize 2 and 48; OSAP: WindowSize 1 and 48" % (lays, list(ils))}


def long_jobs(tier):
    kinds = [("HP", dict(inputLen=3, hashBits=1)), ("BHP", dict(inputLen=3, hashBits=1)), ("DHP", dict(inputLen=3, inputLen2=6, hashBits=1)),
             ("BDHP", dict(inputLen=2, inputLen2=8, hashBits=1))]
    d1s = (12, 15, 19, 20, 24, 27, 28) if tier == "quick" else tuple(range(11, 31))
    jobs = []
    for kind, kp in kinds:
        for d1 in d1s:
            jobs.append(J("long%s-p1-d%d" % (kind, d1), "zzH_long" + kind, params=dict(kp, n=40, p=1, w=3, d1=d1, bs=40), uf_mul=True))
    if tier != "quick":
        for kind, kp in kinds:
            for p in (2, 3):
                for d1 in (14, 17, 21, 22, 26, 30, 33):
                    jobs.append(J("long%s-p%d-d%d" % (kind, p, d1), "zzH_long" + kind, params=dict(kp, hashBits=0, n=44, p=p, w=3, d1=d1, d2=d1 + 6, bs=44), uf_mul=True))
    return jobs, {"structured long inputs": "new parser, fills of 3 and 37 bytes; data periodic (period 1%s) over arbitrary base bytes with an arbitrary byte at position d1 in %s"
                                            "%s, so that matches end at every length from 7 to 26 across the 8/16/24-byte steps of the extension loops; WindowSize symbolic from 1; flags symbolic"
                                            % ("" if tier == "quick" else ", 2, 3", list(d1s), "" if tier == "quick" else " (period 2/3: a second arbitrary byte 6 positions later)")}


def copy_jobs(tier):
    kinds = [("HP", dict(inputLen=3, hashBits=2), (1, 3)), ("BHP", dict(inputLen=3, hashBits=2), (1, 3)), ("DHP", dict(inputLen=3, inputLen2=6, hashBits=2), (3,)),
             ("BDHP", dict(inputLen=2, inputLen2=8, hashBits=2), (1,))]
    ds = (9, 15, 16, 23)  # same in both tiers: the wider grid has not been run clean yet
    jobs = []
    for kind, kp, seeds in kinds:
        for sd in seeds:
            for d in ds:
                jobs.append(J("copy%s-s%d-d%d" % (kind, sd, d), "zzH_copy" + kind, params=dict(kp, o=12, L=d + 2, d=d, seed=sd), max_seconds=120))
    return jobs, {"two-copy inputs": "arbitrary-state step: the block repeats the 12 bytes in front of it (offset 12, so no offset-1 artefacts) except for ONE arbitrary byte at block index d in %s, "
                                     "equal bytes again behind it; base bytes are CONCRETE and pairwise distinct (byte(37k+11*seed+1), seeds per parser chosen so that the reach marker copy-match "
                                     "is hit), the defect byte, the 7 margin bytes, WindowSize, Off and flags are symbolic; all table entries pinned to position 0 with the matching value; HashBits 2" % (list(ds),)}


def spec_C19(tier):
    s = parse_spec(tier, "maximality: every emitted match ends at the block end or the next byte differs from the byte Offset back; BHP/BDHP: a literal directly in front "
                   "of a match never equals the byte Offset before it while that byte is buffered; run clause: a block of >= 32 bytes inside a run of one byte carries at most one "
                   "literal (hash parsers) / MinMatchLen literals (GSAP, OSAP); kernels lcp/lcs/getLE64 (8-byte loops, 4-byte step, every tail) against references")
    j, b = run_jobs(tier)
    s["jobs"] += j
    s["bounds"].update(b)
    j, b = kernel_jobs(tier, ["lcp", "lcs", "getLE64"])
    s["jobs"] += j
    s["bounds"].update(b)
    j, b = long_jobs(tier)
    s["jobs"] += j
    s["bounds"].update(b)
    s["reach"].update({"zzH_run" + k: ["end", "match"] for k in ("HP", "BHP", "DHP", "BDHP", "BUP", "GSAP", "OSAP")})
    s["reach"].update({"zzH_long" + k: ["end", "long-match"] for k in ("HP", "BHP", "DHP", "BDHP")})
    j, b = copy_jobs(tier)
    s["jobs"] += j
    s["bounds"].update(b)
    s["reach"].update({"zzH_copy" + k: ["end", "copy-match"] for k in ("HP", "BHP", "DHP", "BDHP")})
    return s


# ---------------------------------------------------------------- configurations (C16, C20)

CFG_TYPES = ["HP", "BHP", "DHP", "BDHP", "BUP", "GSAP", "OSAP"]
CFG_ASSUME = ["package reflect is modelled over the engine's typed heap (ValueOf, Indirect, Type, NumField, Field, FieldByName, Int, SetInt, Set, StructField.Name; a missing field or an "
              "unassignable type panics as in the real package)", "encoding/json is a stub codec: Marshal of a struct yields an opaque document carrying its field values (omitempty: zero "
              "values are not written, the target keeps what it holds), Unmarshal copies fields by name, (Un)MarshalJSON methods are dispatched as the real package does; JSON text "
              "(syntax errors, unknown keys, wrong JSON types, number ranges) is outside the model", "fmt.Errorf / errors.New return opaque non-nil errors", "64-bit int"]


def cfg_jobs(tier, entries):
    hb = 2 if tier == "quick" else 6
    jobs = []
    for e in entries:
        for t, name in enumerate(CFG_TYPES):
            h = hb
            if tier != "quick" and name in ("HP", "BHP", "BUP"):
                h = 24  # every accepted HashBits incl. the maximum (tables are sparse objects, contents stay zero)
            if tier != "quick" and name in ("DHP", "BDHP"):
                h = 4
            jobs.append(J("%s-%s" % (e, name), "zzH_" + e, params={"type": t, "hbMax": h}))
    return jobs, {"configuration fields": "every integer field over all of int64; OSAP Cost in {\"\", \"XZCost\", another string}",
                  "NewParser": "HashBits <= %s and BucketSize <= 4 where tables are allocated (negative values included); all seven types" % ("2" if tier == "quick" else "24 (HP, BHP, BUP) / 4 (DHP, BDHP)")}


def spec_C20(tier):
    jobs, bounds = cfg_jobs(tier, ["cfgJSON", "cfgClone", "cfgDefaults", "cfgNewParser"])
    jobs.append(J("pbInit", "zzH_pbInit", params={"P": 4, "CX": 2, "PB": 6, "LP": 4, "RD": 2}))
    return {"jobs": jobs, "bounds": bounds, "assumptions": CFG_ASSUME,
            "outside": ["arbitrary JSON documents (text level): syntax errors, unknown keys, wrong JSON types, out-of-range numbers", "'creates an identically behaving parser': reduces to determinism, C13",
                        "HashBits above the bound in the NewParser comparison"],
            "explanation": "for all seven types and all int64 field values: ParseJSON(json.Marshal(&cfg)) executes the real reflection copy loops both ways and must give the same type and fields; "
                           "documents with a mismatching or unknown Type are rejected by every type's UnmarshalJSON and by ParseJSON; Clone is equal and independent; SetDefaults is idempotent and "
                           "keeps non-zero fields; ParserConfig()/BufferConfig() of a new parser equal the defaults-completed configuration",
            "reach": {"zzH_cfgJSON": ["end", "roundtrip"], "zzH_cfgNewParser": ["end", "accepted", "rejected"], "zzH_cfgClone": ["end"], "zzH_cfgDefaults": ["end"]}}


def spec_C16(tier):
    jobs, bounds = cfg_jobs(tier, ["cfgNewParser"])
    base = {"P": 4, "CX": 2, "PB": 6, "LP": 4, "RD": 2}
    jobs.append(J("pbInit", "zzH_pbInit", params=base))
    for op in ("pbWrite", "pbReadFrom", "pbReset"):
        for ld in range(5):
            jobs.append(J("%s-ld%d" % (op, ld), "zzH_" + op, params=dict(base, ld=ld)))
    j2, b2 = parse_jobs(tier, dl=1)
    jobs += j2
    bounds["behaviour: hash parsers"] = b2
    j4, b4 = shrink_jobs(tier)
    jobs += j4
    bounds.update(b4)
    j3, b3 = sap_jobs(tier, scripts=(0, 2, 4), lite=True)
    jobs += j3
    bounds["behaviour: GSAP/OSAP"] = b3
    L, PB, BS, RD = (3, 4, 3, 2)
    for ld in range(L + 1):
        for w in range(ld + 1):
            jobs.append(J("wrapStep-il2-ld%d-w%d" % (ld, w), "zzH_wrapStep", params={"L": L, "ld": ld, "w": w, "PB": PB, "BS": BS, "RD": RD, "inputLen": 2, "hashBits": 0}, loop_cap=400))
    bounds["behaviour: Wrap"] = "one wrapped Parse from an arbitrary HP state (len(Data) <= %d, BufferSize <= %d) with a chunking / failing reader" % (L, PB)
    return {"jobs": jobs, "bounds": bounds, "assumptions": CFG_ASSUME + PARSE_ASSUME + SAP_ASSUME,
            "outside": ["HashBits at its maximum with table contents, memory exhaustion, inputs above 2 GiB (the 'n too large' panics of GSAP/OSAP need more than MaxInt32 buffered bytes)",
                        "behaviour clause beyond the bounds of the shared runs (see C01, C03, C08, C14, C15)"],
            "explanation": "config clause: NewParser executed symbolically for all int64 field values of all seven types: err == nil iff Verify(SetDefaults(cfg)) == nil, no panic path, accepted sizes in "
                           "range. Behaviour clause: every bounds/slice/nil/division check on every path of the Write/ReadFrom/Reset/Parse/Shrink/wrapped-Parse harnesses is a solver query (no feasible "
                           "panic), loops are bounded (unwinding failure = inconclusive), returned errors are the documented ones",
            "reach": {"zzH_cfgNewParser": ["end", "accepted", "rejected"]}}


# ---------------------------------------------------------------- suffix.Sort / LCP / InvertSA (C09)

def spec_C09(tier):
    jobs = []
    fams = [(3, 4, 2), (5, 3, 1), (2, 7, 3)] if tier == "quick" else [(3, 6, 3), (5, 4, 2), (2, 10, 4), (4, 5, 2)]   # (letters, length, pinned prefix)
    for k, N, pins in fams:
        for n in range(0, N + 1):
            np_ = min(pins, max(0, n - 2))
            def rec(prefix):
                if len(prefix) == np_:
                    pp = {"n": n, "k": k}
                    for i, v in enumerate(prefix):
                        pp["p[%d]" % i] = v
                    jobs.append(J("sort-k%d-n%d-%s" % (k, n, "".join(map(str, prefix)) or "all"), "zzH_sortSmall", pkg="suffix", params=pp, max_steps=60000000))
                    return
                for v in range(k):
                    rec(prefix + [v])
            rec([])
    NL = 5 if tier == "quick" else 6
    for n in range(NL + 1):
        jobs.append(J("lcp-n%d" % n, "zzH_lcpTable", pkg="suffix", params={"n": n}))
    j, b = kernel_jobs(tier, ["matchLen"])
    jobs += j
    bounds = {"Sort": ["all texts of length 0..%d over %d of the letters 0x00, 0xff, 0x01, 0xfe, 0x7f (in that order); previous sa contents arbitrary" % (N, k) for k, N, _ in fams],
              "LCP, InvertSA": "all texts of 0..%d arbitrary bytes with the correct suffix array (reference sort; one path per order type), sainv supplied and not supplied, previous lcp contents arbitrary" % NL}
    bounds.update(b)
    return {"jobs": jobs, "bounds": bounds,
            "assumptions": ["reference: insertion sort of the suffixes with naive byte-wise comparison; naive common-prefix computation", "64-bit int"],
            "outside": ["texts longer than the bounds; alphabets outside the five letters for Sort. In particular the B*-substring introsort/heapsort of ssort.go and the budget, copy and "
                        "partial-copy paths of trsort.go need buckets with more than 7 B* suffixes (texts of some dozen to some thousand bytes) and are NOT reached: see "
                        "coverage.unreached_blocks_in_every_job. Long repeats, Fibonacci / Thue-Morse / de Bruijn words of realistic length are outside this technique's reach; "
                        "forcing the fallbacks through a verif-tagged threshold hook would verify a configuration the library never uses and is not done",
                        "LCP with sa == nil (calls the real Sort internally; with arbitrary bytes the 256-way bucket index of k1.go cannot be case-split): covered by the Sort bound only"],
            "explanation": "Sort is executed symbolically (bucket arrays as sparse objects, every comparison a solver-decided branch) and its result compared with the reference order, t unchanged; "
                           "LCP/InvertSA/matchLen are compared with naive computations for all byte values",
            "reach": {"zzH_sortSmall": ["end"], "zzH_lcpTable": ["end"]}}


META["C09"] = {"level": "bounded model checking, small scope: suffix.Sort executed symbolically on all short texts over a five-letter alphabet chosen for the special cases of k1.go, LCP/InvertSA on all "
                        "short texts of arbitrary bytes, matchLen on all slices up to the bound. The claim is explicitly limited: the sorting fallbacks that only long texts reach are not covered",
               "note": "bounds: see evidence.bounds and evidence.outside_bounds. " + TRUST}


# thorough bounds that ran clean (exit 0) on the unchanged tree; the others are defined above but not registered
THOROUGH_VALIDATED = {"C01", "C02", "C03", "C11", "C04", "C05", "C06", "C07", "C08", "C09", "C10", "C12", "C14", "C15", "C16", "C17", "C18", "C20"}  # C02, C03: their thorough job sets are subsets of the C01 run (all assertions are evaluated in every run)
