"""Job definitions per property and tier (bounds live here)."""


def J(id, entry, pkg="lz", **kw):
    params = kw.pop("params", {})
    j = {"id": id, "entry": entry, "pkg": pkg, "params": params}
    j.update(kw)
    return j


def spec(prop, tier):
    f = globals().get("spec_" + prop)
    if f is None:
        raise SystemExit("no check defined for " + prop)
    s = f(tier)
    s.setdefault("reach", {})
    return s


def spec_T00(tier):
    n = 8 if tier == "quick" else 13
    return {"jobs": [J("lcp-%d" % n, "zzH_lcp", params={"n": n})],
            "bounds": {"slice lengths": "0..%d each" % n},
            "reach": {"zzH_lcp": ["lcp-done"]},
            "explanation": "engine self-test"}
