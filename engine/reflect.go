package main

// Model of the subset of package reflect (and a stub codec for encoding/json)
// that lz's configuration code uses. Values live in the engine's own typed heap;
// go/types supplies field lists, names, tags. Anything outside the subset aborts
// the run as inconclusive. See DESIGN.md 2.5.

import (
	"go/types"
	"reflect"
	"strings"

	"golang.org/x/tools/go/ssa"
)

type ReflectValue struct {
	valid bool
	typ   types.Type
	addr  bool  // addressable: the value lives at ptr
	ptr   Ptr   // address (addr) ...
	val   Value // ... or the value itself
}

type ReflectType struct {
	typ types.Type
}

var reflectRType = types.NewNamed(types.NewTypeName(0, nil, "reflect.rtype", nil), types.NewStruct(nil, nil), nil)

// jsonDoc is what the stub codec "marshals" a struct to.
type jsonDoc struct {
	styp   *types.Struct
	fields map[string]Value
}

func isReflectValueType(T types.Type) bool {
	n, ok := T.(*types.Named)
	return ok && n.Obj().Pkg() != nil && n.Obj().Pkg().Path() == "reflect" && n.Obj().Name() == "Value"
}

func (ex *Executor) rvLoad(st *State, v *ReflectValue) Value {
	if !v.valid {
		ex.require(st, ex.tt.False, "reflect: call of a Value method on the zero Value")
	}
	if v.addr {
		return ex.load(st, v.ptr, v.typ)
	}
	return v.val
}

func structOf(T types.Type) (*types.Struct, bool) {
	s, ok := T.Underlying().(*types.Struct)
	return s, ok
}

func (ex *Executor) rvField(st *State, v *ReflectValue, i int) *ReflectValue {
	s, ok := structOf(v.typ)
	if !v.valid || !ok {
		ex.require(st, ex.tt.False, "reflect: Field of non-struct Value")
	}
	if i < 0 || i >= s.NumFields() {
		ex.require(st, ex.tt.False, "reflect: Field index out of range")
	}
	ft := s.Field(i).Type()
	if v.addr {
		p := v.ptr
		if p.idx != nil {
			x := ex.cint(st, p.idx)
			p.base += x * p.stride
			p.idx = nil
		}
		p.base += ex.lay.of(v.typ).fields[i]
		p.stride = ex.lay.leaves(ft)
		return &ReflectValue{valid: true, typ: ft, addr: true, ptr: p}
	}
	return &ReflectValue{valid: true, typ: ft, val: v.val.(*AggV).elems[i]}
}

func fieldIndex(s *types.Struct, name string) int {
	for i := 0; i < s.NumFields(); i++ {
		if s.Field(i).Name() == name {
			return i
		}
	}
	return -1
}

func (ex *Executor) structFieldValue(T types.Type, f *types.Var, idx int) Value {
	// reflect.StructField{Name, PkgPath, Type, Tag, Offset, Index, Anonymous}
	a := ex.zeroValue(T).(*AggV)
	s, _ := structOf(T)
	for i := 0; i < s.NumFields(); i++ {
		switch s.Field(i).Name() {
		case "Name":
			if f != nil {
				a.elems[i] = StringV{f.Name()}
			}
		case "Type":
			if f != nil {
				a.elems[i] = IfaceV{typ: reflectRType, val: &ReflectType{typ: f.Type()}}
			}
		}
	}
	return a
}

// reflectCall: package-level functions and methods of reflect.Value.
func (ex *Executor) reflectCall(st *State, name string, args []Value) Value {
	tt := ex.tt
	switch name {
	case "reflect.ValueOf":
		iv := args[0].(IfaceV)
		if iv.typ == nil {
			return &ReflectValue{}
		}
		return &ReflectValue{valid: true, typ: iv.typ, val: iv.val}
	case "reflect.Indirect":
		v := args[0].(*ReflectValue)
		if !v.valid {
			return v
		}
		if pt, ok := v.typ.Underlying().(*types.Pointer); ok {
			p := ex.rvLoad(st, v).(Ptr)
			if p.isNil() {
				return &ReflectValue{}
			}
			p.stride = ex.lay.leaves(pt.Elem())
			return &ReflectValue{valid: true, typ: pt.Elem(), addr: true, ptr: p}
		}
		return v
	case "reflect.TypeOf":
		iv := args[0].(IfaceV)
		if iv.typ == nil {
			return IfaceV{}
		}
		return IfaceV{typ: reflectRType, val: &ReflectType{typ: iv.typ}}
	}
	if !strings.HasPrefix(name, "(reflect.Value).") {
		unsupported("reflect model: %s", name)
	}
	v := args[0].(*ReflectValue)
	switch strings.TrimPrefix(name, "(reflect.Value).") {
	case "IsValid":
		return tt.Bool(v.valid)
	case "Elem":
		if !v.valid {
			ex.require(st, tt.False, "reflect: call of reflect.Value.Elem on zero Value")
		}
		pt, ok := v.typ.Underlying().(*types.Pointer)
		if !ok {
			if _, isI := v.typ.Underlying().(*types.Interface); isI {
				iv := ex.rvLoad(st, v).(IfaceV)
				if iv.typ == nil {
					return &ReflectValue{}
				}
				return &ReflectValue{valid: true, typ: iv.typ, val: iv.val}
			}
			ex.require(st, tt.False, "reflect: call of reflect.Value.Elem on a non-pointer Value")
		}
		p := ex.rvLoad(st, v).(Ptr)
		if p.isNil() {
			return &ReflectValue{}
		}
		p.stride = ex.lay.leaves(pt.Elem())
		return &ReflectValue{valid: true, typ: pt.Elem(), addr: true, ptr: p}
	case "Interface":
		return IfaceV{typ: v.typ, val: ex.rvLoad(st, v)}
	case "IsNil":
		if p, ok := ex.rvLoad(st, v).(Ptr); ok {
			return tt.Bool(p.isNil())
		}
		unsupported("reflect model: IsNil on %s", v.typ)
	case "IsZero":
		switch x := ex.rvLoad(st, v).(type) {
		case *Term:
			return tt.Eq(x, tt.Const(x.w, 0))
		case StringV:
			return tt.Bool(x.s == "")
		}
		unsupported("reflect model: IsZero on %s", v.typ)
	case "Type":
		if !v.valid {
			ex.require(st, tt.False, "reflect: call of reflect.Value.Type on zero Value")
		}
		return IfaceV{typ: reflectRType, val: &ReflectType{typ: v.typ}}
	case "NumField":
		s, ok := structOf(v.typ)
		if !v.valid || !ok {
			ex.require(st, tt.False, "reflect: call of reflect.Value.NumField on non-struct Value")
		}
		return ex.c64(s.NumFields())
	case "Field":
		return ex.rvField(st, v, ex.cint(st, args[1].(*Term)))
	case "FieldByName":
		s, ok := structOf(v.typ)
		if !v.valid || !ok {
			ex.require(st, tt.False, "reflect: call of reflect.Value.FieldByName on non-struct Value")
		}
		i := fieldIndex(s, ex.strArg(args[1]))
		if i < 0 {
			return &ReflectValue{}
		}
		return ex.rvField(st, v, i)
	case "Int":
		x := ex.rvLoad(st, v)
		w, signed, ok := intInfo(v.typ)
		if !ok || !signed || w == 0 {
			ex.require(st, tt.False, "reflect: call of reflect.Value.Int on non-int Value")
		}
		return tt.Sext(x.(*Term), 64)
	case "String":
		x := ex.rvLoad(st, v)
		if s, ok := x.(StringV); ok {
			return s
		}
		return StringV{"<" + v.typ.String() + " Value>"}
	case "SetInt":
		if !v.valid || !v.addr {
			ex.require(st, tt.False, "reflect: reflect.Value.SetInt using unaddressable value")
		}
		w, signed, ok := intInfo(v.typ)
		if !ok || !signed || w == 0 {
			ex.require(st, tt.False, "reflect: call of reflect.Value.SetInt on non-int Value")
		}
		ex.store(st, v.ptr, tt.Trunc(args[1].(*Term), w), v.typ)
		return nil
	case "Set":
		y := args[1].(*ReflectValue)
		if !v.valid || !v.addr {
			ex.require(st, tt.False, "reflect: reflect.Value.Set using unaddressable value")
		}
		if !y.valid {
			ex.require(st, tt.False, "reflect: call of reflect.Value.Set with the zero Value (field missing)")
		}
		if !types.AssignableTo(y.typ, v.typ) {
			ex.require(st, tt.False, "reflect.Set: value of type "+y.typ.String()+" is not assignable to type "+v.typ.String())
		}
		ex.store(st, v.ptr, ex.rvLoad(st, y), v.typ)
		return nil
	case "Kind":
		return ex.c64(int(kindOf(v.typ)))
	case "CanSet":
		return tt.Bool(v.valid && v.addr)
	}
	unsupported("reflect model: %s", name)
	return nil
}

func kindOf(T types.Type) reflect.Kind {
	switch u := T.Underlying().(type) {
	case *types.Struct:
		return reflect.Struct
	case *types.Pointer:
		return reflect.Ptr
	case *types.Slice:
		return reflect.Slice
	case *types.Basic:
		switch u.Kind() {
		case types.Int:
			return reflect.Int
		case types.Int64:
			return reflect.Int64
		case types.String:
			return reflect.String
		case types.Bool:
			return reflect.Bool
		}
	}
	return reflect.Invalid
}

// reflectMethod: methods invoked on a reflect.Type interface value.
func (ex *Executor) reflectMethod(st *State, name string, args []Value) Value {
	if strings.HasPrefix(name, "(reflect.Value).") {
		return ex.reflectCall(st, name, args)
	}
	rt := args[0].(*ReflectType)
	sfT := ex.structFieldType()
	switch strings.TrimPrefix(name, "(reflect.Type).") {
	case "NumField":
		s, ok := structOf(rt.typ)
		if !ok {
			ex.require(st, ex.tt.False, "reflect: NumField of non-struct type")
		}
		return ex.c64(s.NumFields())
	case "Field":
		s, ok := structOf(rt.typ)
		i := ex.cint(st, args[1].(*Term))
		if !ok || i < 0 || i >= s.NumFields() {
			ex.require(st, ex.tt.False, "reflect: Field index out of bounds")
		}
		return ex.structFieldValue(sfT, s.Field(i), i)
	case "FieldByName":
		s, ok := structOf(rt.typ)
		if !ok {
			ex.require(st, ex.tt.False, "reflect: FieldByName of non-struct type")
		}
		i := fieldIndex(s, ex.strArg(args[1]))
		if i < 0 {
			return &AggV{elems: []Value{ex.structFieldValue(sfT, nil, 0), ex.tt.False}}
		}
		return &AggV{elems: []Value{ex.structFieldValue(sfT, s.Field(i), i), ex.tt.True}}
	case "Name":
		if n, ok := rt.typ.(*types.Named); ok {
			return StringV{n.Obj().Name()}
		}
		return StringV{""}
	case "String":
		return StringV{rt.typ.String()}
	case "Kind":
		return ex.c64(int(kindOf(rt.typ)))
	}
	unsupported("reflect model: %s", name)
	return nil
}

func (ex *Executor) structFieldType() types.Type {
	for _, p := range ex.prog.AllPackages() {
		if p.Pkg.Path() == "reflect" {
			if o := p.Pkg.Scope().Lookup("StructField"); o != nil {
				return o.Type()
			}
		}
	}
	unsupported("reflect.StructField type not found")
	return nil
}

// ---------- JSON stub codec ----------

func hasOmitEmpty(tag string) bool {
	v, ok := reflect.StructTag(tag).Lookup("json")
	return ok && strings.Contains(v, "omitempty")
}

func (ex *Executor) jsonDocs(st *State) map[int]*jsonDoc {
	if st.docs == nil {
		st.docs = map[int]*jsonDoc{}
	}
	return st.docs
}

// jsonCall implements json.Marshal / json.Unmarshal for struct values without
// (Un)MarshalJSON methods (types that have them are dispatched by call()).
func (ex *Executor) jsonCall(st *State, fr *Frame, name string, args []Value) Value {
	switch name {
	case "encoding/json.Marshal":
		iv := args[0].(IfaceV)
		T := iv.typ
		var val Value = iv.val
		if pt, ok := T.Underlying().(*types.Pointer); ok {
			p := iv.val.(Ptr)
			if p.isNil() {
				unsupported("json stub: Marshal(nil pointer)")
			}
			T = pt.Elem()
			val = ex.load(st, p, T)
		}
		s, ok := structOf(T)
		if !ok {
			unsupported("json stub: Marshal of %s", T)
		}
		doc := &jsonDoc{styp: s, fields: map[string]Value{}}
		agg := val.(*AggV)
		for i := 0; i < s.NumFields(); i++ {
			doc.fields[s.Field(i).Name()] = agg.elems[i]
		}
		sv := ex.makeSlice(st, types.Typ[types.Uint8], 2, 2, "json document")
		o := st.wobj(sv.obj)
		o.set(0, ex.tt.Const(8, '{'))
		o.set(1, ex.tt.Const(8, '}'))
		// documents are immutable and never freed: keep them in a copy-on-write map
		nd := make(map[int]*jsonDoc, len(st.docs)+1)
		for k, v := range st.docs {
			nd[k] = v
		}
		nd[sv.obj] = doc
		st.docs = nd
		return &AggV{elems: []Value{sv, IfaceV{}}}
	case "encoding/json.Unmarshal":
		sv := args[0].(SliceV)
		doc := st.docs[sv.obj]
		if doc == nil {
			unsupported("json stub: Unmarshal of bytes that no Marshal produced (JSON text is outside the model)")
		}
		iv := args[1].(IfaceV)
		pt, ok := iv.typ.Underlying().(*types.Pointer)
		if !ok {
			return ex.newOpaqueError(st, "json: Unmarshal(non-pointer)")
		}
		p := iv.val.(Ptr)
		if p.isNil() {
			return ex.newOpaqueError(st, "json: Unmarshal(nil)")
		}
		s, ok := structOf(pt.Elem())
		if !ok {
			unsupported("json stub: Unmarshal into %s", pt.Elem())
		}
		offs := ex.lay.of(pt.Elem()).fields
		for i := 0; i < s.NumFields(); i++ {
			f := s.Field(i)
			dv, have := doc.fields[f.Name()]
			if !have {
				continue // unknown keys are ignored, missing keys leave the target untouched
			}
			di := fieldIndex(doc.styp, f.Name())
			if !types.Identical(doc.styp.Field(di).Type(), f.Type()) {
				return ex.newOpaqueError(st, "json: cannot unmarshal value into field "+f.Name())
			}
			fp := p
			fp.base += offs[i]
			fp.stride = ex.lay.leaves(f.Type())
			if hasOmitEmpty(doc.styp.Tag(di)) {
				// a zero value was not written to the document: the target keeps what it holds
				old := ex.load(st, fp, f.Type())
				switch x := dv.(type) {
				case *Term:
					dv = ex.tt.Ite(ex.tt.Eq(x, ex.tt.Const(x.w, 0)), old.(*Term), x)
				case StringV:
					if x.s == "" {
						dv = old
					}
				default:
					unsupported("json stub: omitempty on %T", dv)
				}
			}
			ex.store(st, fp, dv, f.Type())
		}
		return IfaceV{}
	}
	unsupported("json stub: %s", name)
	return nil
}

// jsonDispatch: json.Marshal / json.Unmarshal on a type with its own
// MarshalJSON / UnmarshalJSON method calls that method, as encoding/json does.
func (ex *Executor) jsonDispatch(name string, args []Value) (*ssa.Function, []Value) {
	switch name {
	case "encoding/json.Marshal":
		iv, ok := args[0].(IfaceV)
		if !ok || iv.typ == nil {
			return nil, nil
		}
		if m := ex.methodByName(iv.typ, "MarshalJSON"); m != nil {
			return m, []Value{iv.val}
		}
	case "encoding/json.Unmarshal":
		iv, ok := args[1].(IfaceV)
		if !ok || iv.typ == nil {
			return nil, nil
		}
		if m := ex.methodByName(iv.typ, "UnmarshalJSON"); m != nil {
			return m, []Value{iv.val, args[0]}
		}
	}
	return nil, nil
}

func (ex *Executor) methodByName(T types.Type, name string) *ssa.Function {
	ms := ex.prog.MethodSets.MethodSet(T)
	for i := 0; i < ms.Len(); i++ {
		if ms.At(i).Obj().Name() == name {
			return ex.prog.MethodValue(ms.At(i))
		}
	}
	return nil
}
