package main

// Model of the subset of package reflect (and the JSON stub codec) that
// lz's configuration code uses.  Filled in by reflectmodel; see DESIGN.md 2.5.

type ReflectValue struct {
	ptr  Ptr        // address of the value (addressable) or
	val  Value      // the value itself
	typ  interface{} // types.Type
	addr bool
}

type ReflectType struct {
	typ interface{}
}

func (ex *Executor) reflectCall(st *State, name string, args []Value) Value {
	unsupported("reflect model: %s", name)
	return nil
}

func (ex *Executor) reflectMethod(st *State, name string, args []Value) Value {
	unsupported("reflect model: %s", name)
	return nil
}

func (ex *Executor) jsonCall(st *State, fr *Frame, name string, args []Value) Value {
	unsupported("json stub: %s", name)
	return nil
}
