package main

// Symbolic execution of go/ssa: states, frames, instruction semantics, forking.

import (
	"fmt"
	"go/constant"
	"go/token"
	"go/types"
	"os"
	"sort"
	"strings"
	"sync"
	"time"

	"golang.org/x/tools/go/ssa"
)

type FnInfo struct {
	idx     map[ssa.Value]int
	n       int
	harness bool
	loopHd  map[*ssa.BasicBlock]bool
}

type Frame struct {
	fn     *ssa.Function
	info   *FnInfo
	blk    *ssa.BasicBlock
	prev   *ssa.BasicBlock
	ip     int
	regs   []Value
	retReg int // register index in the caller (-1: none)
	defers []*ssa.Defer // deferred calls (operands are evaluated at the defer statement)
	dargs  [][]Value
}

type State struct {
	id      int
	frames  []*Frame
	heap    []*Object
	gen     int
	pc      []*Term
	model   *Model
	known   map[int]uint64
	steps   int
	done    bool
	choices []string
	visits  map[*ssa.BasicBlock]int // loop-head visit counts (per path)
	pending *ssa.BasicBlock         // branch target still to be entered (forked child)
	pending_ []pendingAssert        // assertions not yet discharged
	simpMemo map[int]*Term          // memo of simp under the current known map
	bounds   *bounds                // learned intervals
	docs     map[int]*jsonDoc       // JSON stub documents by byte-slice object (copy on write)
	pools    map[[2]int][]Value     // sync.Pool contents by pool address (copy on write)
}

type pendingAssert struct {
	c     *Term
	label string
	where string
	stack []string
}

type Violation struct {
	Harness string            `json:"harness"`
	Label   string            `json:"label"`
	Pos     string            `json:"pos"`
	Values  map[string]uint64 `json:"values"`
	Choices []string          `json:"choices,omitempty"`
	Params  map[string]int64  `json:"params,omitempty"`
	Stack   []string          `json:"stack,omitempty"`
}

type Options struct {
	MaxSteps      int // per path
	MaxPaths      int
	MaxEnum       int // K: max values per concretization
	MaxViolations int
	LoopCap       int // visits of one loop head per path (0 = unlimited)
	Stubs         map[string]string
	Params        map[string]int64
	Verbose       bool
	Deadline      time.Time
	UFMul         bool // hash multiplication as uninterpreted function
	NoPhiConc     bool // do not concretise integer loop variables of the code under test
	NonTerm       bool // exhausting the step budget / loop cap is a (candidate) non-termination violation
}

type Executor struct {
	prog    *ssa.Program
	pkgs    map[string]*ssa.Package
	tt      *TermTable
	sol     *Solver
	lay     *Layouts
	fninfo  map[*ssa.Function]*FnInfo
	globals map[*ssa.Global]int
	extErr  map[string]IfaceV
	work    []*State
	opt     Options
	nextGen int
	nextID  int
	harness string

	errType    types.Type
	initHeap   []*Object
	nInitObjs  int // objects allocated by package initialisation (globals, error values): read-only afterwards

	// results
	Paths        int
	PathsPanic   int
	Steps        int64
	Forks        int
	Asserts      int
	AssertsProved int
	Violations   []Violation
	violKeys     map[string]bool
	Inconclusive []string
	Reach        map[string]int
	Covered      map[*ssa.BasicBlock]bool
	FnsEntered   map[*ssa.Function]bool
	Assumes      map[string]bool
	Samples      []map[string]interface{}
	QKinds       map[string]int
	IVChecked    int
	firstViol    time.Time
}

var checkIV = os.Getenv("GOSYMX_CHECK_IV") != ""

var debugBranch = os.Getenv("GOSYMX_DEBUG") == "branch"
var debugCount = map[string]int{}

type engineError struct{ msg string }

func unsupported(format string, a ...interface{}) {
	panic(engineError{fmt.Sprintf(format, a...)})
}

// pathEnd is thrown (panic) to terminate the current path.
type pathEnd struct{}

func NewExecutor(prog *ssa.Program, pkgs map[string]*ssa.Package, opt Options, solverArgv []string, timeoutMs int) (*Executor, error) {
	tt := NewTermTable()
	sol, err := NewSolver(tt, solverArgv, timeoutMs)
	if err != nil {
		return nil, err
	}
	ex := &Executor{prog: prog, pkgs: pkgs, tt: tt, sol: sol, lay: NewLayouts(),
		fninfo: map[*ssa.Function]*FnInfo{}, globals: map[*ssa.Global]int{}, extErr: map[string]IfaceV{},
		opt: opt, violKeys: map[string]bool{}, Reach: map[string]int{}, Covered: map[*ssa.BasicBlock]bool{},
		FnsEntered: map[*ssa.Function]bool{}, Assumes: map[string]bool{}}
	ex.errType = types.Universe.Lookup("error").Type()
	return ex, nil
}

func (ex *Executor) info(fn *ssa.Function) *FnInfo {
	if fi, ok := ex.fninfo[fn]; ok {
		return fi
	}
	fi := &FnInfo{idx: map[ssa.Value]int{}, loopHd: map[*ssa.BasicBlock]bool{}}
	add := func(v ssa.Value) {
		fi.idx[v] = fi.n
		fi.n++
	}
	for _, p := range fn.Params {
		add(p)
	}
	for _, p := range fn.FreeVars {
		add(p)
	}
	for _, b := range fn.Blocks {
		for _, in := range b.Instrs {
			if v, ok := in.(ssa.Value); ok {
				add(v)
			}
		}
		for _, p := range b.Preds {
			if p.Index >= b.Index {
				fi.loopHd[b] = true
			}
		}
	}
	name := fn.Name()
	if fn.Parent() != nil {
		name = fn.Parent().Name()
	}
	if fn.Signature.Recv() != nil {
		// methods of harness types
		if n, ok := derefNamed(fn.Signature.Recv().Type()); ok && strings.HasPrefix(n, "zz") {
			fi.harness = true
		}
	}
	if strings.HasPrefix(name, "zz") || strings.HasPrefix(name, "verif") {
		fi.harness = true
	}
	ex.fninfo[fn] = fi
	return fi
}

func derefNamed(T types.Type) (string, bool) {
	if p, ok := T.(*types.Pointer); ok {
		T = p.Elem()
	}
	if n, ok := T.(*types.Named); ok {
		return n.Obj().Name(), true
	}
	return "", false
}

// ---------- heap ----------

func (ex *Executor) newGen() int { ex.nextGen++; return ex.nextGen }

func (st *State) obj(id int) *Object { return st.heap[id] }

func (st *State) wobj(id int) *Object {
	o := st.heap[id]
	if o.gen != st.gen {
		o = o.clone(st.gen)
		st.heap[id] = o
	}
	return o
}

func (ex *Executor) newObject(st *State, T types.Type, label string) int {
	n := ex.lay.leaves(T)
	o := &Object{gen: st.gen, n: n, label: label}
	if n <= denseLimit {
		o.dense = ex.zeroLeaves(T, make([]Value, 0, n))
	} else {
		arr, ok := T.Underlying().(*types.Array)
		if !ok {
			unsupported("huge non-array object %s", T)
		}
		o.sparse = map[int]Value{}
		o.zero = ex.zeroLeaves(arr.Elem(), nil)
	}
	st.heap = append(st.heap, o)
	return len(st.heap) - 1
}

func (ex *Executor) newArray(st *State, elem types.Type, n int, label string) int {
	return ex.newObject(st, types.NewArray(elem, int64(n)), label)
}

func (st *State) clone(ex *Executor) *State {
	ex.nextID++
	c := &State{id: ex.nextID, pc: append([]*Term(nil), st.pc...), model: st.model, steps: st.steps,
		known: make(map[int]uint64, len(st.known)), choices: append([]string(nil), st.choices...)}
	for k, v := range st.known {
		c.known[k] = v
	}
	if st.visits != nil {
		c.visits = make(map[*ssa.BasicBlock]int, len(st.visits))
		for k, v := range st.visits {
			c.visits[k] = v
		}
	}
	c.pending_ = append([]pendingAssert(nil), st.pending_...)
	c.bounds = st.bounds.clone()
	c.docs = st.docs
	c.pools = st.pools
	c.heap = append([]*Object(nil), st.heap...)
	st.gen = ex.newGen()
	c.gen = ex.newGen()
	c.frames = make([]*Frame, len(st.frames))
	for i, f := range st.frames {
		nf := *f
		nf.regs = append([]Value(nil), f.regs...)
		nf.defers = append([]*ssa.Defer(nil), f.defers...)
		nf.dargs = append([][]Value(nil), f.dargs...)
		c.frames[i] = &nf
	}
	ex.Forks++
	return c
}

// ---------- solver helpers ----------

func (ex *Executor) inconclusive(format string, a ...interface{}) {
	msg := fmt.Sprintf(format, a...)
	for _, m := range ex.Inconclusive {
		if m == msg {
			return
		}
	}
	if len(ex.Inconclusive) < 50 {
		ex.Inconclusive = append(ex.Inconclusive, msg)
	}
}

// learn records what a conjunct that holds on the path tells about sub-terms.
func (st *State) learn(c *Term, depth int) {
	if c.IsConst() || depth > 8 {
		return
	}
	set := func(t *Term, v uint64) {
		if t.IsConst() {
			return
		}
		if _, ok := st.known[t.id]; !ok {
			st.known[t.id] = v
			st.simpMemo = nil
		}
	}
	set(c, 1)
	switch c.op {
	case OpBNot:
		x := c.a[0]
		set(x, 0)
		if x.op == OpBOr { // not(a or b): both false
			st.learnFalse(x.a[0], depth+1)
			st.learnFalse(x.a[1], depth+1)
		}
	case OpBAnd:
		st.learn(c.a[0], depth+1)
		st.learn(c.a[1], depth+1)
	case OpEq:
		if c.a[1].IsConst() {
			set(c.a[0], c.a[1].val)
		} else if c.a[0].IsConst() {
			set(c.a[1], c.a[0].val)
		}
	case OpUlt, OpUle, OpSlt, OpSle:
		st.learnCmp(c, true)
	}
	if c.op == OpBNot {
		switch c.a[0].op {
		case OpUlt, OpUle, OpSlt, OpSle:
			st.learnCmp(c.a[0], false)
		}
	}
}

func (st *State) learnFalse(c *Term, depth int) {
	if c.IsConst() || depth > 8 {
		return
	}
	if _, ok := st.known[c.id]; !ok {
		st.known[c.id] = 0
		st.simpMemo = nil
	}
	switch c.op {
	case OpBNot:
		st.learn(c.a[0], depth+1)
	case OpBOr:
		st.learnFalse(c.a[0], depth+1)
		st.learnFalse(c.a[1], depth+1)
	case OpUlt, OpUle, OpSlt, OpSle:
		st.learnCmp(c, false)
	}
}

func (st *State) addPC(c *Term) {
	if c.IsConst() {
		return
	}
	st.pc = append(st.pc, c)
	st.learn(c, 0)
}

// simp rewrites t using what the path condition is known to fix.
func (ex *Executor) simp(st *State, t *Term) *Term {
	if t.op == OpConst || (len(st.known) == 0 && st.bounds == nil) {
		return t
	}
	if v, ok := st.known[t.id]; ok {
		return ex.tt.Const(t.w, v)
	}
	if t.op == OpVar {
		return t
	}
	if st.simpMemo == nil {
		st.simpMemo = map[int]*Term{}
	}
	if r, ok := st.simpMemo[t.id]; ok {
		return r
	}
	var a [3]*Term
	changed := false
	for i, x := range t.a {
		if x == nil {
			break
		}
		a[i] = ex.simp(st, x)
		if a[i] != x {
			changed = true
		}
	}
	r := t
	if changed {
		r = ex.tt.Rebuild(t, a[0], a[1], a[2])
		if v, ok := st.known[r.id]; ok {
			r = ex.tt.Const(r.w, v)
		}
	}
	if st.bounds != nil && r.w == 0 && !r.IsConst() {
		switch r.op {
		case OpUlt, OpUle, OpSlt, OpSle, OpEq:
			if v, ok := st.decideCmp(r); ok {
				if checkIV {
					neg := r
					if v {
						neg = ex.tt.Not(r)
					}
					if ex.sol.Check(append(append([]*Term(nil), st.pc...), neg)) != Unsat {
						panic("interval domain disagrees with the solver on " + ex.tt.String(r))
					}
					ex.IVChecked++
				}
				r = ex.tt.Bool(v)
			}
		}
	}
	st.simpMemo[t.id] = r
	return r
}

func (ex *Executor) check(kind string, q []*Term) SatResult {
	r := ex.sol.Check(q)
	if ex.QKinds == nil {
		ex.QKinds = map[string]int{}
	}
	ex.QKinds[kind+"/"+r.String()]++
	return r
}

// feasible asks whether pc ∧ cond is satisfiable; on Sat the model is returned.
func (ex *Executor) feasible(st *State, cond *Term) (bool, *Model) {
	if cond.IsConst() {
		if cond.val == 0 {
			return false, nil
		}
		return true, st.model
	}
	if st.model.Eval(cond) == 1 {
		return true, st.model
	}
	q := append(append([]*Term(nil), st.pc...), cond)
	switch ex.check("feasible", q) {
	case Sat:
		return true, ex.sol.GetModel()
	case Unsat:
		return false, nil
	}
	ex.inconclusive("solver unknown on a feasibility query at %s", ex.where(st))
	return false, nil
}

func (ex *Executor) where(st *State) string {
	if len(st.frames) == 0 {
		return "?"
	}
	fr := st.frames[len(st.frames)-1]
	pos := token.NoPos
	if fr.ip < len(fr.blk.Instrs) {
		pos = fr.blk.Instrs[fr.ip].Pos()
		for i := fr.ip; pos == token.NoPos && i >= 0; i-- {
			pos = fr.blk.Instrs[i].Pos()
		}
	}
	p := ex.prog.Fset.Position(pos)
	return fmt.Sprintf("%s (%s:%d)", fr.fn.Name(), shortFile(p.Filename), p.Line)
}

func shortFile(f string) string {
	if i := strings.LastIndex(f, "/"); i >= 0 {
		return f[i+1:]
	}
	return f
}

func (ex *Executor) stack(st *State) []string {
	var out []string
	for i := len(st.frames) - 1; i >= 0; i-- {
		fr := st.frames[i]
		pos := token.NoPos
		for j := fr.ip; j >= 0 && j < len(fr.blk.Instrs) && pos == token.NoPos; j-- {
			pos = fr.blk.Instrs[j].Pos()
		}
		p := ex.prog.Fset.Position(pos)
		out = append(out, fmt.Sprintf("%s %s:%d", fr.fn.Name(), shortFile(p.Filename), p.Line))
	}
	return out
}

func (ex *Executor) recordViolation(st *State, label string, m *Model) {
	ex.recordViolationAt(st, label, ex.where(st), ex.stack(st), m)
}

func (ex *Executor) recordViolationAt(st *State, label, where string, stack []string, m *Model) {
	key := label + "@" + where
	if ex.violKeys[key] {
		return
	}
	ex.violKeys[key] = true
	v := Violation{Harness: ex.harness, Label: label, Pos: where, Values: map[string]uint64{},
		Choices: append([]string(nil), st.choices...), Params: ex.opt.Params, Stack: stack}
	for _, x := range ex.tt.vars {
		v.Values[x.name] = m.Eval(x)
	}
	ex.Violations = append(ex.Violations, v)
}

const hashPrime = 9920624304325388887

// ufAxioms returns, for every application of the uninterpreted multiplication,
// the equation that gives it its real meaning.
func (ex *Executor) ufAxioms() []*Term {
	var out []*Term
	for _, a := range ex.tt.ufApps {
		out = append(out, ex.tt.Eq(a, ex.tt.mk(OpMul, a.w, 0, "", a.a[0], ex.tt.Const(a.w, hashPrime), nil)))
	}
	return out
}

// realModel turns a model of pc ∧ bad found under the uninterpreted hash
// multiplication into one under the real multiplication (CEGAR step). ok=false:
// the violation is spurious (or the solver gave up, which is recorded).
func (ex *Executor) realModel(st *State, bad *Term, m *Model) (*Model, bool) {
	if !ex.opt.UFMul || len(ex.tt.ufApps) == 0 {
		return m, true
	}
	consistent := true
	for _, a := range ex.tt.ufApps {
		if m.Eval(a) != (m.Eval(a.a[0])*hashPrime)&maskw(a.w) {
			consistent = false
			break
		}
	}
	if consistent {
		return m, true
	}
	q := append(append([]*Term(nil), st.pc...), bad)
	q = append(q, ex.ufAxioms()...)
	switch ex.check("refine", q) {
	case Sat:
		return ex.sol.GetModel(), true
	case Unsat:
		return nil, false
	}
	ex.inconclusive("solver unknown while refining a counterexample with the real hash multiplication at %s", ex.where(st))
	return nil, false
}

// require splits on a runtime check: ok must hold, otherwise the program panics.
func (ex *Executor) require(st *State, ok *Term, kind string) {
	ok = ex.simp(st, ok)
	if ok.IsConst() {
		if ok.val == 1 {
			return
		}
		ex.recordViolation(st, "panic: "+kind, st.model)
		ex.PathsPanic++
		panic(pathEnd{})
	}
	notOk := ex.tt.Not(ok)
	if st.model.Eval(ok) == 0 {
		// the panic is feasible with the current model
		if rm, real := ex.realModel(st, notOk, st.model); real {
			ex.recordViolation(st, "panic: "+kind, rm)
		}
		f, m := ex.feasible(st, ok)
		if !f {
			ex.PathsPanic++
			panic(pathEnd{})
		}
		st.model = m
		st.addPC(ok)
		return
	}
	key := "panic: " + kind + "@" + ex.where(st)
	if !ex.violKeys[key] {
		f, m := ex.feasible(st, notOk)
		if f {
			if rm, real := ex.realModel(st, notOk, m); real {
				ex.recordViolation(st, "panic: "+kind, rm)
			}
		} else if debugBranch {
			debugCount["REQ "+ex.where(st)+"  "+ex.tt.String(notOk)]++
		}
	}
	st.addPC(ok)
}

// assume constrains the path; ends it when infeasible.
func (ex *Executor) assume(st *State, c *Term) {
	c = ex.simp(st, c)
	if c.IsConst() {
		if c.val == 1 {
			return
		}
		panic(pathEnd{})
	}
	f, m := ex.feasible(st, c)
	if !f {
		panic(pathEnd{})
	}
	st.model = m
	st.addPC(c)
}

// cval concretises t, forking one state per feasible value.
func (ex *Executor) cval(st *State, t *Term) uint64 {
	if t.IsConst() {
		return t.val
	}
	if v, ok := st.known[t.id]; ok {
		return v
	}
	if s := ex.simp(st, t); s.IsConst() {
		return s.val
	}
	v0 := st.model.Eval(t)
	vals := []uint64{v0}
	models := []*Model{st.model}
	excl := ex.tt.Not(ex.tt.Eq(t, ex.tt.Const(t.w, v0)))
	// cheap syntactic case: small range
	for {
		q := append(append([]*Term(nil), st.pc...), excl)
		r := ex.check("enumerate", q)
		if r == Unknown {
			ex.inconclusive("solver unknown while enumerating values at %s", ex.where(st))
			break
		}
		if r == Unsat {
			break
		}
		m := ex.sol.GetModel()
		v := m.Eval(t)
		vals = append(vals, v)
		models = append(models, m)
		excl = ex.tt.And(excl, ex.tt.Not(ex.tt.Eq(t, ex.tt.Const(t.w, v))))
		if len(vals) > ex.opt.MaxEnum {
			ex.inconclusive("more than %d feasible values for a concretised term at %s", ex.opt.MaxEnum, ex.where(st))
			break
		}
	}
	for i := len(vals) - 1; i >= 1; i-- {
		c := st.clone(ex)
		k := ex.tt.Const(t.w, vals[i])
		c.addPC(ex.tt.Eq(t, k))
		c.known[t.id] = vals[i]
		c.model = models[i]
		c.substitute(t, k)
		ex.work = append(ex.work, c)
	}
	k := ex.tt.Const(t.w, v0)
	st.addPC(ex.tt.Eq(t, k))
	st.known[t.id] = v0
	st.substitute(t, k)
	return v0
}

func (ex *Executor) cint(st *State, t *Term) int {
	return int(sext64(ex.cval(st, t), t.w))
}

// substitute replaces register occurrences of t in the top frame.
func (st *State) substitute(t, k *Term) {
	if len(st.frames) == 0 {
		return
	}
	fr := st.frames[len(st.frames)-1]
	for i, v := range fr.regs {
		switch x := v.(type) {
		case *Term:
			if x == t {
				fr.regs[i] = k
			}
		case SliceV:
			ch := false
			if x.off == t {
				x.off = k
				ch = true
			}
			if x.len == t {
				x.len = k
				ch = true
			}
			if x.cap == t {
				x.cap = k
				ch = true
			}
			if ch {
				fr.regs[i] = x
			}
		case Ptr:
			if x.idx == t {
				x.idx = k
				fr.regs[i] = x
			}
		}
	}
}

// ---------- running ----------

func (ex *Executor) initState() *State {
	st := &State{model: NewModel(), known: map[int]uint64{}}
	st.gen = ex.newGen()
	st.heap = []*Object{{gen: -1, n: 0, dense: []Value{}, label: "nil"}}
	return st
}

func (ex *Executor) pushFrame(st *State, fn *ssa.Function, args []Value, bindings []Value, retReg int) {
	if fn.Blocks == nil {
		unsupported("call of function without body: %s", fn.String())
	}
	fi := ex.info(fn)
	fr := &Frame{fn: fn, info: fi, blk: fn.Blocks[0], regs: make([]Value, fi.n), retReg: retReg}
	if len(args) != len(fn.Params) {
		unsupported("arity mismatch calling %s", fn.String())
	}
	for i, p := range fn.Params {
		fr.regs[fi.idx[p]] = args[i]
	}
	for i, p := range fn.FreeVars {
		fr.regs[fi.idx[p]] = bindings[i]
	}
	st.frames = append(st.frames, fr)
	ex.Covered[fr.blk] = true
	ex.FnsEntered[fn] = true
	if len(st.frames) > 200 {
		unsupported("call depth exceeds 200")
	}
}

// RunInit executes the init functions of the given packages concretely.
func (ex *Executor) RunInit(pkgs []*ssa.Package) error {
	st := ex.initState()
	// allocate globals of all packages with bodies
	own := map[*ssa.Package]bool{}
	for _, p := range pkgs {
		own[p] = true
	}
	all := ex.prog.AllPackages()
	sort.Slice(all, func(i, j int) bool { return all[i].Pkg.Path() < all[j].Pkg.Path() })
	for _, p := range all {
		var names []string
		for n := range p.Members {
			names = append(names, n)
		}
		sort.Strings(names)
		for _, n := range names {
			g, ok := p.Members[n].(*ssa.Global)
			if !ok {
				continue
			}
			T := g.Type().(*types.Pointer).Elem()
			if own[p] {
				ex.globals[g] = ex.newObject(st, T, "global "+g.Name())
			} else if types.Identical(T, ex.errType) {
				id := ex.newObject(st, T, "ext "+g.String())
				key := g.String()
				st.wobj(id).set(0, IfaceV{typ: extErrType(key), val: StringV{key}})
				ex.globals[g] = id
			}
		}
	}
	for _, p := range pkgs {
		fn := p.Func("init")
		if fn == nil {
			continue
		}
		ex.pushFrame(st, fn, nil, nil, -1)
		if err := ex.runPathCatch(st); err != nil {
			return fmt.Errorf("init of %s: %v", p.Pkg.Path(), err)
		}
		if len(ex.work) != 0 {
			return fmt.Errorf("init of %s forked", p.Pkg.Path())
		}
		st.done = false
	}
	ex.initHeap = st.heap
	ex.nInitObjs = len(st.heap)
	// reset statistics collected during init
	ex.Paths, ex.Steps = 0, 0
	ex.Samples = nil
	return nil
}

// Run explores all paths of the harness entry function.
func (ex *Executor) Run(entry *ssa.Function) {
	ex.harness = entry.Name()
	st := ex.initState()
	st.heap = append([]*Object(nil), ex.initHeap...)
	ex.pushFrame(st, entry, nil, nil, -1)
	ex.work = []*State{st}
	for len(ex.work) > 0 {
		s := ex.work[len(ex.work)-1]
		ex.work = ex.work[:len(ex.work)-1]
		if err := ex.runPathCatch(s); err != nil {
			ex.inconclusive("engine: %v", err)
		}
		if !ex.opt.Deadline.IsZero() && time.Now().After(ex.opt.Deadline) && len(ex.work) > 0 {
			ex.inconclusive("time budget exhausted with %d states pending after %d paths", len(ex.work), ex.Paths)
			ex.work = nil
			break
		}
		if ex.opt.MaxPaths > 0 && ex.Paths >= ex.opt.MaxPaths && len(ex.work) > 0 {
			ex.inconclusive("path budget %d exhausted with %d states pending", ex.opt.MaxPaths, len(ex.work))
			ex.work = nil
			break
		}
		if len(ex.Violations) > 0 {
			// the verdict of this job is settled; look for further, different violations only briefly
			if ex.firstViol.IsZero() {
				ex.firstViol = time.Now()
			} else if time.Since(ex.firstViol) > 20*time.Second {
				ex.work = nil
				break
			}
		}
		if len(ex.Violations) >= ex.opt.MaxViolations {
			if len(ex.work) > 0 {
				ex.work = nil
			}
			break
		}
	}
}

func (ex *Executor) runPathCatch(st *State) (err error) {
	defer func() {
		if r := recover(); r != nil {
			switch x := r.(type) {
			case pathEnd:
				ex.Paths++
				err = ex.flushCatch(st)
			case engineError:
				ex.Paths++
				err = fmt.Errorf("%s at %s", x.msg, ex.where(st))
			default:
				panic(r)
			}
		}
	}()
	if st.pending != nil {
		to := st.pending
		st.pending = nil
		ex.jump(st, st.frames[len(st.frames)-1], to)
	}
	for !st.done {
		ex.step(st)
		st.steps++
		ex.Steps++
		if ex.opt.MaxSteps > 0 && st.steps > ex.opt.MaxSteps {
			if ex.opt.NonTerm {
				ex.recordViolation(st, "nontermination: step budget exceeded inside the call under test [C06]", st.model)
			} else {
				ex.inconclusive("step budget %d exceeded (unwinding failure) at %s", ex.opt.MaxSteps, ex.where(st))
			}
			panic(pathEnd{})
		}
	}
	ex.Paths++
	if e := ex.flushCatch(st); e != nil {
		return e
	}
	if len(ex.Samples) < 4 {
		smp := map[string]interface{}{"path": st.id, "choices": st.choices, "steps": st.steps, "pc_conjuncts": len(st.pc)}
		vals := map[string]uint64{}
		for _, x := range ex.tt.vars {
			vals[x.name] = st.model.Eval(x)
		}
		smp["witness"] = vals
		ex.Samples = append(ex.Samples, smp)
	}
	return nil
}

// flushCatch discharges the deferred assertions when a path ends.
func (ex *Executor) flushCatch(st *State) (err error) {
	defer func() {
		if r := recover(); r != nil {
			switch x := r.(type) {
			case pathEnd:
			case engineError:
				err = fmt.Errorf("%s", x.msg)
			default:
				panic(r)
			}
		}
	}()
	ex.flushAsserts(st)
	return nil
}

// val evaluates an SSA operand in the frame.
func (ex *Executor) val(st *State, fr *Frame, v ssa.Value) Value {
	switch x := v.(type) {
	case *ssa.Const:
		return ex.constVal(x)
	case *ssa.Global:
		id, ok := ex.globals[x]
		if !ok {
			return ex.extGlobal(st, x)
		}
		return Ptr{obj: id, stride: 1, count: 1}
	case *ssa.Function:
		return FuncV{fn: x}
	case *ssa.Builtin:
		return FuncV{builtin: x}
	}
	i, ok := fr.info.idx[v]
	if !ok {
		unsupported("unknown operand %s", v.Name())
	}
	r := fr.regs[i]
	if r == nil {
		unsupported("read of undefined register %s in %s", v.Name(), fr.fn.Name())
	}
	return r
}

// extGlobal: globals of body-less packages are pre-allocated by RunInit.
func (ex *Executor) extGlobal(st *State, g *ssa.Global) Value {
	unsupported("global %s of a package without bodies", g.String())
	return nil
}

var extErrTypes = map[string]types.Type{}
var extErrMu sync.Mutex

func extErrType(key string) types.Type {
	extErrMu.Lock()
	defer extErrMu.Unlock()
	if t, ok := extErrTypes[key]; ok {
		return t
	}
	t := types.NewNamed(types.NewTypeName(token.NoPos, nil, "extError<"+key+">", nil), types.NewStruct(nil, nil), nil)
	extErrTypes[key] = t
	return t
}

func (ex *Executor) constVal(c *ssa.Const) Value {
	T := c.Type()
	if c.Value == nil {
		return ex.zeroValue(T)
	}
	if w, _, ok := intInfo(T); ok {
		if w == 0 {
			return ex.tt.Bool(constant.BoolVal(c.Value))
		}
		if i, exact := constant.Int64Val(constant.ToInt(c.Value)); exact {
			return ex.tt.Const(w, uint64(i))
		}
		u, _ := constant.Uint64Val(constant.ToInt(c.Value))
		return ex.tt.Const(w, u)
	}
	if isString(T) {
		return StringV{constant.StringVal(c.Value)}
	}
	unsupported("constant of type %s", T)
	return nil
}

func (ex *Executor) setReg(fr *Frame, v ssa.Value, x Value) {
	fr.regs[fr.info.idx[v]] = x
}

func (ex *Executor) jump(st *State, fr *Frame, to *ssa.BasicBlock) {
	from := fr.blk
	fr.prev = from
	fr.blk = to
	fr.ip = 0
	ex.Covered[to] = true
	if fr.info.loopHd[to] && ex.opt.LoopCap > 0 {
		if st.visits == nil {
			st.visits = map[*ssa.BasicBlock]int{}
		}
		st.visits[to]++
		if st.visits[to] > ex.opt.LoopCap {
			if ex.opt.NonTerm && !fr.info.harness {
				ex.recordViolation(st, "nontermination: loop head visited more often than the bound derived for this call [C06]", st.model)
			} else {
				ex.inconclusive("loop head visited more than %d times (unwinding failure) at %s", ex.opt.LoopCap, ex.where(st))
			}
			panic(pathEnd{})
		}
	}
	// phis: parallel assignment
	pi := -1
	for i, p := range to.Preds {
		if p == from {
			pi = i
			break
		}
	}
	var phis []*ssa.Phi
	var vals []Value
	for _, in := range to.Instrs {
		ph, ok := in.(*ssa.Phi)
		if !ok {
			break
		}
		phis = append(phis, ph)
		vals = append(vals, ex.val(st, fr, ph.Edges[pi]))
	}
	for i, ph := range phis {
		ex.setReg(fr, ph, vals[i])
	}
	fr.ip = len(phis)
	// concretise symbolic index-like loop variables of the code under test
	if fr.info.loopHd[to] && !fr.info.harness && !ex.opt.NoPhiConc {
		for _, ph := range phis {
			t, ok := fr.regs[fr.info.idx[ph]].(*Term)
			if !ok || t.IsConst() {
				continue
			}
			if b, ok := ph.Type().Underlying().(*types.Basic); ok {
				switch b.Kind() {
				case types.Int, types.Int32, types.Uint32, types.Uint:
					// ip is already past the phis: a forked child resumes here with the substituted value
					ex.cval(st, t)
				}
			}
		}
	}
}

func (ex *Executor) step(st *State) {
	fr := st.frames[len(st.frames)-1]
	in := fr.blk.Instrs[fr.ip]
	switch x := in.(type) {
	case *ssa.DebugRef:
	case *ssa.Phi:
		unsupported("phi executed out of order")
	case *ssa.Alloc:
		T := x.Type().(*types.Pointer).Elem()
		id := ex.newObject(st, T, x.Comment)
		ex.setReg(fr, x, Ptr{obj: id, stride: ex.lay.leaves(T), count: 1})
	case *ssa.BinOp:
		ex.setReg(fr, x, ex.binop(st, x.Op, ex.val(st, fr, x.X), ex.val(st, fr, x.Y), x.X.Type(), x.Y.Type()))
	case *ssa.UnOp:
		ex.setReg(fr, x, ex.unop(st, x, ex.val(st, fr, x.X)))
	case *ssa.Convert:
		ex.setReg(fr, x, ex.convert(st, ex.val(st, fr, x.X), x.X.Type(), x.Type()))
	case *ssa.ChangeType:
		ex.setReg(fr, x, ex.val(st, fr, x.X))
	case *ssa.ChangeInterface:
		ex.setReg(fr, x, ex.val(st, fr, x.X))
	case *ssa.MakeInterface:
		ex.setReg(fr, x, IfaceV{typ: x.X.Type(), val: ex.val(st, fr, x.X)})
	case *ssa.TypeAssert:
		ex.typeAssert(st, fr, x)
	case *ssa.MakeClosure:
		var b []Value
		for _, v := range x.Bindings {
			b = append(b, ex.val(st, fr, v))
		}
		ex.setReg(fr, x, FuncV{fn: x.Fn.(*ssa.Function), bindings: b})
	case *ssa.Extract:
		ex.setReg(fr, x, ex.val(st, fr, x.Tuple).(*AggV).elems[x.Index])
	case *ssa.Field:
		ex.setReg(fr, x, ex.val(st, fr, x.X).(*AggV).elems[x.Field])
	case *ssa.FieldAddr:
		p := ex.val(st, fr, x.X).(Ptr)
		if p.isNil() {
			ex.require(st, ex.tt.False, "nil pointer dereference")
		}
		sT := x.X.Type().Underlying().(*types.Pointer).Elem()
		p.base += ex.lay.of(sT).fields[x.Field]
		ex.setReg(fr, x, p)
	case *ssa.IndexAddr:
		ex.indexAddr(st, fr, x)
	case *ssa.Index:
		a := ex.val(st, fr, x.X)
		i := ex.cint(st, ex.to64(ex.val(st, fr, x.Index), x.Index.Type()))
		switch av := a.(type) {
		case *AggV:
			ex.require(st, ex.tt.Bool(i >= 0 && i < len(av.elems)), "index out of range")
			ex.setReg(fr, x, av.elems[i])
		case StringV:
			ex.require(st, ex.tt.Bool(i >= 0 && i < len(av.s)), "index out of range")
			ex.setReg(fr, x, ex.tt.Const(8, uint64(av.s[i])))
		default:
			unsupported("index on %T", a)
		}
	case *ssa.Slice:
		ex.sliceInstr(st, fr, x)
	case *ssa.MakeSlice:
		ln := ex.cint(st, ex.to64(ex.val(st, fr, x.Len), x.Len.Type()))
		cp := ex.cint(st, ex.to64(ex.val(st, fr, x.Cap), x.Cap.Type()))
		ex.require(st, ex.tt.Bool(ln >= 0 && cp >= ln), "makeslice: len out of range")
		el := x.Type().Underlying().(*types.Slice).Elem()
		ex.setReg(fr, x, ex.makeSlice(st, el, ln, cp, "make"))
	case *ssa.Store:
		p := ex.val(st, fr, x.Addr).(Ptr)
		ex.store(st, p, ex.val(st, fr, x.Val), x.Val.Type())
	case *ssa.Jump:
		ex.jump(st, fr, fr.blk.Succs[0])
		return
	case *ssa.If:
		ex.branch(st, fr, ex.val(st, fr, x.Cond).(*Term))
		return
	case *ssa.Return:
		ex.ret(st, fr, x)
		return
	case *ssa.Panic:
		msg := "explicit panic"
		if iv, ok := ex.val(st, fr, x.X).(IfaceV); ok {
			if s, ok := iv.val.(StringV); ok {
				msg = "explicit panic: " + s.s
			}
		}
		ex.recordViolation(st, "panic: "+msg, st.model)
		ex.PathsPanic++
		panic(pathEnd{})
	case *ssa.Call:
		if ex.call(st, fr, x) {
			return // a new frame was pushed (ip of the caller advanced already)
		}
	case *ssa.Defer:
		var vals []Value
		cc := x.Common()
		if cc.IsInvoke() {
			unsupported("defer of an interface method call")
		}
		if _, isB := cc.Value.(*ssa.Builtin); isB {
			unsupported("defer of a builtin")
		}
		vals = append(vals, ex.val(st, fr, cc.Value))
		for _, a := range cc.Args {
			vals = append(vals, ex.val(st, fr, a))
		}
		fr.defers = append(fr.defers, x)
		fr.dargs = append(fr.dargs, vals)
	case *ssa.RunDefers:
		if n := len(fr.defers); n > 0 {
			d, vals := fr.defers[n-1], fr.dargs[n-1]
			fr.defers, fr.dargs = fr.defers[:n-1], fr.dargs[:n-1]
			if ex.callDeferred(st, fr, d, vals) {
				return // a frame was pushed; RunDefers is executed again when it returns
			}
			return // stay on this instruction until all deferred calls have run
		}
	default:
		unsupported("instruction %T", in)
	}
	fr.ip++
}

func (ex *Executor) branch(st *State, fr *Frame, c *Term) {
	tt := ex.tt
	c = ex.simp(st, c)
	if c.IsConst() {
		if c.val == 1 {
			ex.jump(st, fr, fr.blk.Succs[0])
		} else {
			ex.jump(st, fr, fr.blk.Succs[1])
		}
		return
	}
	mv := st.model.Eval(c)
	take, other := c, tt.Not(c)
	ti, oi := 0, 1
	if mv == 0 {
		take, other = other, take
		ti, oi = 1, 0
	}
	q := append(append([]*Term(nil), st.pc...), other)
	switch ex.check("branch", q) {
	case Sat:
		m := ex.sol.GetModel()
		child := st.clone(ex)
		child.model = m
		child.addPC(other)
		child.pending = fr.blk.Succs[oi]
		ex.work = append(ex.work, child)
	case Unknown:
		ex.inconclusive("solver unknown on a branch at %s", ex.where(st))
	case Unsat:
		if debugBranch {
			debugCount[ex.where(st)+"  "+ex.tt.String(other)]++
		}
	}
	st.addPC(take)
	ex.jump(st, fr, fr.blk.Succs[ti])
}

func (ex *Executor) ret(st *State, fr *Frame, x *ssa.Return) {
	var res Value
	switch len(x.Results) {
	case 0:
	case 1:
		res = ex.val(st, fr, x.Results[0])
	default:
		a := &AggV{}
		for _, r := range x.Results {
			a.elems = append(a.elems, ex.val(st, fr, r))
		}
		res = a
	}
	st.frames = st.frames[:len(st.frames)-1]
	if len(st.frames) == 0 {
		st.done = true
		return
	}
	caller := st.frames[len(st.frames)-1]
	if fr.retReg >= 0 {
		caller.regs[fr.retReg] = res
	}
}

// to64 extends an integer value to 64 bits according to its Go type.
func (ex *Executor) to64(v Value, T types.Type) *Term {
	t := v.(*Term)
	w, signed, ok := intInfo(T)
	if !ok || w == 0 {
		unsupported("to64 of %s", T)
	}
	if w == 64 {
		return t
	}
	if signed {
		return ex.tt.Sext(t, 64)
	}
	return ex.tt.Zext(t, 64)
}

func (ex *Executor) c64(i int) *Term { return ex.tt.Const(64, uint64(int64(i))) }

func (ex *Executor) typeAssert(st *State, fr *Frame, x *ssa.TypeAssert) {
	iv := ex.val(st, fr, x.X).(IfaceV)
	ok := false
	var res Value
	if iv.typ != nil {
		if types.IsInterface(x.AssertedType) {
			ok = types.Implements(iv.typ, x.AssertedType.Underlying().(*types.Interface))
			res = iv
		} else {
			ok = types.Identical(iv.typ, x.AssertedType)
			res = iv.val
		}
	}
	if !ok {
		if types.IsInterface(x.AssertedType) {
			res = IfaceV{}
		} else {
			res = ex.zeroValue(x.AssertedType)
		}
	}
	if x.CommaOk {
		ex.setReg(fr, x, &AggV{elems: []Value{res, ex.tt.Bool(ok)}})
		return
	}
	if !ok {
		ex.require(st, ex.tt.False, "interface conversion")
	}
	ex.setReg(fr, x, res)
}
