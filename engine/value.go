package main

// Runtime values of the symbolic interpreter and the flat, copy-on-write heap.

import (
	"fmt"
	"go/types"

	"golang.org/x/tools/go/ssa"
)

// Value is one of: *Term, Ptr, SliceV, *AggV, IfaceV, FuncV, StringV, nil (uninitialised register)
type Value interface{}

// Ptr addresses leaf cell base + idx*stride of object obj. idx == nil means 0.
// count is the number of elements idx may range over (for candidate enumeration).
type Ptr struct {
	obj    int // 0 = nil pointer
	base   int
	idx    *Term // nil or 64-bit term (possibly constant)
	stride int
	count  int
}

func (p Ptr) isNil() bool { return p.obj == 0 }

// SliceV: element i lives at leaf base + (off+i)*stride of object obj.
type SliceV struct {
	obj    int // 0 = nil slice
	base   int
	stride int
	off    *Term // 64-bit, in elements
	len    *Term
	cap    *Term
}

type AggV struct {
	elems []Value
}

type IfaceV struct {
	typ types.Type // nil = nil interface
	val Value
}

type FuncV struct {
	fn       *ssa.Function // nil = nil func
	bindings []Value
	builtin  *ssa.Builtin
}

type StringV struct {
	s string
}

// Object is a flat array of leaf cells.
type Object struct {
	gen    int
	n      int
	dense  []Value
	sparse map[int]Value
	zero   []Value // pattern of zero leaves (sparse objects)
	label  string
}

func (o *Object) get(i int) Value {
	if i < 0 || i >= o.n {
		panic(fmt.Sprintf("object %s: cell %d out of %d", o.label, i, o.n))
	}
	if o.dense != nil {
		return o.dense[i]
	}
	if v, ok := o.sparse[i]; ok {
		return v
	}
	return o.zero[i%len(o.zero)]
}

func (o *Object) set(i int, v Value) {
	if i < 0 || i >= o.n {
		panic(fmt.Sprintf("object %s: cell %d out of %d", o.label, i, o.n))
	}
	if o.dense != nil {
		o.dense[i] = v
		return
	}
	o.sparse[i] = v
}

func (o *Object) clone(gen int) *Object {
	c := &Object{gen: gen, n: o.n, zero: o.zero, label: o.label}
	if o.dense != nil {
		c.dense = make([]Value, len(o.dense))
		copy(c.dense, o.dense)
	} else {
		c.sparse = make(map[int]Value, len(o.sparse))
		for k, v := range o.sparse {
			c.sparse[k] = v
		}
	}
	return c
}

const denseLimit = 1 << 14

// ---------- type layout ----------

type layoutInfo struct {
	leaves int
	fields []int // struct: leaf offset of each field
}

type Layouts struct {
	cache map[types.Type]*layoutInfo
	sizes types.Sizes
}

func NewLayouts() *Layouts {
	return &Layouts{cache: map[types.Type]*layoutInfo{}, sizes: types.SizesFor("gc", "amd64")}
}

func (l *Layouts) of(T types.Type) *layoutInfo {
	if li, ok := l.cache[T]; ok {
		return li
	}
	li := &layoutInfo{}
	if isReflectValueType(T) {
		li.leaves = 1
		l.cache[T] = li
		return li
	}
	switch u := T.Underlying().(type) {
	case *types.Struct:
		off := 0
		for i := 0; i < u.NumFields(); i++ {
			li.fields = append(li.fields, off)
			off += l.of(u.Field(i).Type()).leaves
		}
		li.leaves = off
	case *types.Array:
		li.leaves = int(u.Len()) * l.of(u.Elem()).leaves
	case *types.Tuple:
		off := 0
		for i := 0; i < u.Len(); i++ {
			li.fields = append(li.fields, off)
			off += l.of(u.At(i).Type()).leaves
		}
		li.leaves = off
	default:
		li.leaves = 1
	}
	l.cache[T] = li
	return li
}

func (l *Layouts) leaves(T types.Type) int { return l.of(T).leaves }

// intWidth returns bit width and signedness for integer / bool basic types.
func intInfo(T types.Type) (w uint8, signed bool, ok bool) {
	b, isB := T.Underlying().(*types.Basic)
	if !isB {
		return 0, false, false
	}
	switch b.Kind() {
	case types.Bool, types.UntypedBool:
		return 0, false, true
	case types.Int8:
		return 8, true, true
	case types.Int16:
		return 16, true, true
	case types.Int32, types.UntypedRune:
		return 32, true, true
	case types.Int64, types.Int, types.UntypedInt:
		return 64, true, true
	case types.Uint8:
		return 8, false, true
	case types.Uint16:
		return 16, false, true
	case types.Uint32:
		return 32, false, true
	case types.Uint64, types.Uint, types.Uintptr:
		return 64, false, true
	}
	return 0, false, false
}

func isString(T types.Type) bool {
	b, ok := T.Underlying().(*types.Basic)
	return ok && b.Info()&types.IsString != 0
}

// zeroLeaf gives the zero value of a leaf type.
func (ex *Executor) zeroLeaf(T types.Type) Value {
	switch u := T.Underlying().(type) {
	case *types.Basic:
		if w, _, ok := intInfo(T); ok {
			if w == 0 {
				return ex.tt.False
			}
			return ex.tt.Const(w, 0)
		}
		if u.Info()&types.IsString != 0 {
			return StringV{""}
		}
		if u.Kind() == types.UnsafePointer {
			return Ptr{}
		}
		if u.Info()&types.IsFloat != 0 {
			return ex.tt.Const(64, 0)
		}
		panic("zeroLeaf: unsupported basic type " + T.String())
	case *types.Pointer:
		return Ptr{}
	case *types.Slice:
		z := ex.tt.Const(64, 0)
		return SliceV{stride: ex.lay.leaves(u.Elem()), off: z, len: z, cap: z}
	case *types.Interface:
		return IfaceV{}
	case *types.Signature:
		return FuncV{}
	case *types.Map, *types.Chan:
		return Ptr{}
	}
	panic("zeroLeaf: unsupported type " + T.String())
}

// zeroLeaves appends the zero leaves of T to out.
func (ex *Executor) zeroLeaves(T types.Type, out []Value) []Value {
	if isReflectValueType(T) {
		return append(out, &ReflectValue{})
	}
	switch u := T.Underlying().(type) {
	case *types.Struct:
		for i := 0; i < u.NumFields(); i++ {
			out = ex.zeroLeaves(u.Field(i).Type(), out)
		}
		return out
	case *types.Array:
		for i := int64(0); i < u.Len(); i++ {
			out = ex.zeroLeaves(u.Elem(), out)
		}
		return out
	}
	return append(out, ex.zeroLeaf(T))
}

// zeroValue builds the register-level zero value of T.
func (ex *Executor) zeroValue(T types.Type) Value {
	if isReflectValueType(T) {
		return &ReflectValue{}
	}
	switch u := T.Underlying().(type) {
	case *types.Struct:
		a := &AggV{}
		for i := 0; i < u.NumFields(); i++ {
			a.elems = append(a.elems, ex.zeroValue(u.Field(i).Type()))
		}
		return a
	case *types.Array:
		a := &AggV{}
		for i := int64(0); i < u.Len(); i++ {
			a.elems = append(a.elems, ex.zeroValue(u.Elem()))
		}
		return a
	case *types.Tuple:
		a := &AggV{}
		for i := 0; i < u.Len(); i++ {
			a.elems = append(a.elems, ex.zeroValue(u.At(i).Type()))
		}
		return a
	}
	return ex.zeroLeaf(T)
}

// flatten appends the leaves of register value v of type T.
func (ex *Executor) flatten(v Value, T types.Type, out []Value) []Value {
	if isReflectValueType(T) {
		return append(out, v)
	}
	switch u := T.Underlying().(type) {
	case *types.Struct:
		a := v.(*AggV)
		for i := 0; i < u.NumFields(); i++ {
			out = ex.flatten(a.elems[i], u.Field(i).Type(), out)
		}
		return out
	case *types.Array:
		a := v.(*AggV)
		for i := int64(0); i < u.Len(); i++ {
			out = ex.flatten(a.elems[i], u.Elem(), out)
		}
		return out
	}
	return append(out, v)
}

// unflatten rebuilds a register value of type T from leaves; returns the rest.
func (ex *Executor) unflatten(cells []Value, T types.Type) (Value, []Value) {
	if isReflectValueType(T) {
		return cells[0], cells[1:]
	}
	switch u := T.Underlying().(type) {
	case *types.Struct:
		a := &AggV{elems: make([]Value, u.NumFields())}
		for i := 0; i < u.NumFields(); i++ {
			a.elems[i], cells = ex.unflatten(cells, u.Field(i).Type())
		}
		return a, cells
	case *types.Array:
		a := &AggV{elems: make([]Value, u.Len())}
		for i := int64(0); i < u.Len(); i++ {
			a.elems[i], cells = ex.unflatten(cells, u.Elem())
		}
		return a, cells
	}
	return cells[0], cells[1:]
}
