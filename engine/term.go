package main

// Hash-consed bit-vector / boolean terms with constant folding, cheap
// unsigned range reasoning, SMT-LIB2 printing and a concrete evaluator.

import (
	"fmt"
	"math/bits"
	"strings"
)

type Op uint8

const (
	OpConst Op = iota
	OpVar
	OpAdd
	OpSub
	OpMul
	OpUDiv
	OpSDiv
	OpURem
	OpSRem
	OpAnd
	OpOr
	OpXor
	OpShl
	OpLShr
	OpAShr
	OpNot // bitwise not
	OpNeg
	OpEq // bv or bool equality -> Bool
	OpUlt
	OpUle
	OpSlt
	OpSle
	OpIte
	OpZext    // zero extend to w
	OpSext    // sign extend to w
	OpTrunc   // keep low w bits
	OpBAnd    // boolean
	OpBOr     // boolean
	OpBNot    // boolean
	OpB2BV    // bool -> bv (w bits, 0/1)
	OpUF      // uninterpreted function name(a0), result width w
)

var opNames = map[Op]string{
	OpAdd: "bvadd", OpSub: "bvsub", OpMul: "bvmul", OpUDiv: "bvudiv", OpSDiv: "bvsdiv",
	OpURem: "bvurem", OpSRem: "bvsrem", OpAnd: "bvand", OpOr: "bvor", OpXor: "bvxor",
	OpShl: "bvshl", OpLShr: "bvlshr", OpAShr: "bvashr", OpNot: "bvnot", OpNeg: "bvneg",
	OpEq: "=", OpUlt: "bvult", OpUle: "bvule", OpSlt: "bvslt", OpSle: "bvsle", OpIte: "ite",
	OpBAnd: "and", OpBOr: "or", OpBNot: "not",
}

// Term is an immutable DAG node. w == 0 means sort Bool.
type Term struct {
	op   Op
	w    uint8
	a    [3]*Term
	val  uint64 // OpConst value (masked); bool: 0/1
	name string // OpVar
	id   int
	// cached unsigned range
	lo, hi uint64
}

type termKey struct {
	op         Op
	w          uint8
	a0, a1, a2 int
	val        uint64
	name       string
}

type TermTable struct {
	tab   map[termKey]*Term
	terms []*Term
	vars  []*Term
	ufApps []*Term
	ufSeen map[int]bool
	True  *Term
	False *Term
}

func NewTermTable() *TermTable {
	tt := &TermTable{tab: map[termKey]*Term{}}
	tt.False = tt.mk(OpConst, 0, 0, "", nil, nil, nil)
	tt.True = tt.mk(OpConst, 0, 1, "", nil, nil, nil)
	return tt
}

func maskw(w uint8) uint64 {
	if w >= 64 {
		return ^uint64(0)
	}
	if w == 0 {
		return 1
	}
	return (uint64(1) << w) - 1
}

func tid(t *Term) int {
	if t == nil {
		return -1
	}
	return t.id
}

func (tt *TermTable) mk(op Op, w uint8, val uint64, name string, a0, a1, a2 *Term) *Term {
	k := termKey{op, w, tid(a0), tid(a1), tid(a2), val, name}
	if t, ok := tt.tab[k]; ok {
		return t
	}
	t := &Term{op: op, w: w, val: val, name: name, id: len(tt.terms)}
	t.a[0], t.a[1], t.a[2] = a0, a1, a2
	tt.computeRange(t)
	tt.tab[k] = t
	tt.terms = append(tt.terms, t)
	if op == OpVar {
		tt.vars = append(tt.vars, t)
	}
	return t
}

func (t *Term) IsConst() bool { return t.op == OpConst }
func (t *Term) IsBool() bool  { return t.w == 0 }

func (tt *TermTable) Const(w uint8, v uint64) *Term {
	return tt.mk(OpConst, w, v&maskw(w), "", nil, nil, nil)
}
func (tt *TermTable) Bool(b bool) *Term {
	if b {
		return tt.True
	}
	return tt.False
}
func (tt *TermTable) Var(w uint8, name string) *Term {
	return tt.mk(OpVar, w, 0, name, nil, nil, nil)
}

func sext64(v uint64, w uint8) int64 {
	if w >= 64 {
		return int64(v)
	}
	sh := 64 - w
	return int64(v<<sh) >> sh
}

func (tt *TermTable) computeRange(t *Term) {
	m := maskw(t.w)
	t.lo, t.hi = 0, m
	switch t.op {
	case OpConst:
		t.lo, t.hi = t.val, t.val
	case OpZext:
		t.lo, t.hi = t.a[0].lo, t.a[0].hi
	case OpB2BV:
		t.lo, t.hi = 0, 1
	case OpAnd:
		h := t.a[0].hi
		if t.a[1].hi < h {
			h = t.a[1].hi
		}
		t.hi = h
	case OpOr, OpXor:
		h := t.a[0].hi | t.a[1].hi
		if h != 0 {
			h = (uint64(1) << uint(bits.Len64(h))) - 1
			if bits.Len64(t.a[0].hi|t.a[1].hi) == 64 {
				h = ^uint64(0)
			}
		}
		if h < t.hi {
			t.hi = h
		}
	case OpLShr:
		if t.a[1].IsConst() && t.a[1].val < 64 {
			t.lo, t.hi = t.a[0].lo>>t.a[1].val, t.a[0].hi>>t.a[1].val
		} else {
			t.hi = t.a[0].hi
		}
	case OpShl:
		if t.a[1].IsConst() && t.a[1].val < 64 {
			s := t.a[1].val
			if t.a[0].hi <= m>>s {
				t.lo, t.hi = t.a[0].lo<<s, t.a[0].hi<<s
			}
		}
	case OpAdd:
		l, c1 := bits.Add64(t.a[0].lo, t.a[1].lo, 0)
		h, c2 := bits.Add64(t.a[0].hi, t.a[1].hi, 0)
		if c1 == 0 && c2 == 0 && h <= m {
			t.lo, t.hi = l, h
		}
	case OpSub:
		// a - b with a.lo >= b.hi never wraps
		if t.a[0].lo >= t.a[1].hi {
			t.lo, t.hi = t.a[0].lo-t.a[1].hi, t.a[0].hi-t.a[1].lo
		}
	case OpMul:
		h, l := bits.Mul64(t.a[0].hi, t.a[1].hi)
		if h == 0 && l <= m {
			t.lo, t.hi = t.a[0].lo*t.a[1].lo, l
		}
	case OpUDiv:
		if t.a[1].lo > 0 {
			t.lo, t.hi = t.a[0].lo/t.a[1].hi, t.a[0].hi/t.a[1].lo
		}
	case OpURem:
		if t.a[1].hi > 0 {
			t.hi = t.a[1].hi - 1
			if t.a[0].hi < t.hi {
				t.hi = t.a[0].hi
			}
		}
	case OpIte:
		t.lo, t.hi = t.a[1].lo, t.a[1].hi
		if t.a[2].lo < t.lo {
			t.lo = t.a[2].lo
		}
		if t.a[2].hi > t.hi {
			t.hi = t.a[2].hi
		}
	case OpTrunc:
		if t.a[0].hi <= m {
			t.lo, t.hi = t.a[0].lo, t.a[0].hi
		}
	case OpSext:
		// non-negative source stays as is
		sm := maskw(t.a[0].w) >> 1
		if t.a[0].hi <= sm {
			t.lo, t.hi = t.a[0].lo, t.a[0].hi
		}
	}
}

// nonNeg reports whether t is certainly non-negative as a signed number.
func (t *Term) nonNeg() bool { return t.hi <= maskw(t.w)>>1 }

func (tt *TermTable) Bin(op Op, a, b *Term) *Term {
	if a.w != b.w {
		panic(fmt.Sprintf("width mismatch %v: %d vs %d (%s , %s)", op, a.w, b.w, tt.String(a), tt.String(b)))
	}
	w := a.w
	m := maskw(w)
	if a.IsConst() && b.IsConst() {
		x, y := a.val, b.val
		switch op {
		case OpAdd:
			return tt.Const(w, x+y)
		case OpSub:
			return tt.Const(w, x-y)
		case OpMul:
			return tt.Const(w, x*y)
		case OpUDiv:
			if y == 0 {
				return tt.Const(w, m)
			}
			return tt.Const(w, x/y)
		case OpURem:
			if y == 0 {
				return tt.Const(w, x)
			}
			return tt.Const(w, x%y)
		case OpSDiv:
			sx, sy := sext64(x, w), sext64(y, w)
			if sy == 0 {
				if sx < 0 {
					return tt.Const(w, 1)
				}
				return tt.Const(w, m)
			}
			if sy == -1 {
				return tt.Const(w, uint64(-sx))
			}
			return tt.Const(w, uint64(sx/sy))
		case OpSRem:
			sx, sy := sext64(x, w), sext64(y, w)
			if sy == 0 {
				return tt.Const(w, x)
			}
			if sy == -1 {
				return tt.Const(w, 0)
			}
			return tt.Const(w, uint64(sx%sy))
		case OpAnd:
			return tt.Const(w, x&y)
		case OpOr:
			return tt.Const(w, x|y)
		case OpXor:
			return tt.Const(w, x^y)
		case OpShl:
			if y >= uint64(w) {
				return tt.Const(w, 0)
			}
			return tt.Const(w, x<<y)
		case OpLShr:
			if y >= uint64(w) {
				return tt.Const(w, 0)
			}
			return tt.Const(w, x>>y)
		case OpAShr:
			sx := sext64(x, w)
			if y >= uint64(w) {
				y = uint64(w) - 1
			}
			return tt.Const(w, uint64(sx>>y))
		}
	}
	// algebraic simplifications
	switch op {
	case OpAdd:
		if a.IsConst() && a.val == 0 {
			return b
		}
		if b.IsConst() && b.val == 0 {
			return a
		}
		if a.IsConst() { // canonical: const on the right
			a, b = b, a
		}
		// (x + c1) + c2
		if b.IsConst() && a.op == OpAdd && a.a[1].IsConst() {
			return tt.Bin(OpAdd, a.a[0], tt.Const(w, a.a[1].val+b.val))
		}
		if b.IsConst() && a.op == OpSub && a.a[1].IsConst() {
			return tt.Bin(OpAdd, a.a[0], tt.Const(w, b.val-a.a[1].val))
		}
	case OpSub:
		if b.IsConst() && b.val == 0 {
			return a
		}
		if a == b {
			return tt.Const(w, 0)
		}
		if b.IsConst() {
			return tt.Bin(OpAdd, a, tt.Const(w, -b.val))
		}
		// (x + c) - x
		if a.op == OpAdd && a.a[0] == b {
			return a.a[1]
		}
	case OpMul:
		if a.IsConst() {
			a, b = b, a
		}
		if b.IsConst() {
			if b.val == 0 {
				return b
			}
			if b.val == 1 {
				return a
			}
		}
	case OpAnd:
		if a == b {
			return a
		}
		if a.IsConst() {
			a, b = b, a
		}
		if b.IsConst() {
			if b.val == 0 {
				return b
			}
			if b.val == m {
				return a
			}
			if a.hi <= b.val && (b.val&(b.val+1)) == 0 {
				return a // mask covers the whole range
			}
		}
	case OpOr:
		if a == b {
			return a
		}
		if a.IsConst() {
			a, b = b, a
		}
		if b.IsConst() {
			if b.val == 0 {
				return a
			}
			if b.val == m {
				return b
			}
		}
	case OpXor:
		if a == b {
			return tt.Const(w, 0)
		}
		if a.IsConst() {
			a, b = b, a
		}
		if b.IsConst() && b.val == 0 {
			return a
		}
	case OpShl, OpLShr, OpAShr:
		if b.IsConst() && b.val == 0 {
			return a
		}
		if a.IsConst() && a.val == 0 {
			return a
		}
		if b.IsConst() && b.val >= uint64(w) && op != OpAShr {
			return tt.Const(w, 0)
		}
	case OpUDiv, OpSDiv:
		if b.IsConst() && b.val == 1 {
			return a
		}
	}
	// push binary ops with a constant through an ite of constants, which
	// keeps indices read from ite-trees as ite-trees of constants
	if b.IsConst() && a.op == OpIte && isConstTree(a, 6) {
		return tt.Ite(a.a[0], tt.Bin(op, a.a[1], b), tt.Bin(op, a.a[2], b))
	}
	if a.IsConst() && b.op == OpIte && isConstTree(b, 6) {
		return tt.Ite(b.a[0], tt.Bin(op, a, b.a[1]), tt.Bin(op, a, b.a[2]))
	}
	return tt.mk(op, w, 0, "", a, b, nil)
}

func isConstTree(t *Term, depth int) bool {
	if t.IsConst() {
		return true
	}
	if depth == 0 || t.op != OpIte {
		return false
	}
	return isConstTree(t.a[1], depth-1) && isConstTree(t.a[2], depth-1)
}

func (tt *TermTable) Un(op Op, a *Term) *Term {
	if a.IsConst() {
		switch op {
		case OpNot:
			return tt.Const(a.w, ^a.val)
		case OpNeg:
			return tt.Const(a.w, -a.val)
		}
	}
	if a.op == op { // double negation
		return a.a[0]
	}
	return tt.mk(op, a.w, 0, "", a, nil, nil)
}

func (tt *TermTable) Not(a *Term) *Term {
	if !a.IsBool() {
		panic("Not on non-bool")
	}
	if a.IsConst() {
		return tt.Bool(a.val == 0)
	}
	if a.op == OpBNot {
		return a.a[0]
	}
	return tt.mk(OpBNot, 0, 0, "", a, nil, nil)
}

func (tt *TermTable) And(a, b *Term) *Term {
	if a.IsConst() {
		if a.val == 0 {
			return a
		}
		return b
	}
	if b.IsConst() {
		if b.val == 0 {
			return b
		}
		return a
	}
	if a == b {
		return a
	}
	if a.id > b.id {
		a, b = b, a
	}
	return tt.mk(OpBAnd, 0, 0, "", a, b, nil)
}

func (tt *TermTable) Or(a, b *Term) *Term {
	if a.IsConst() {
		if a.val == 1 {
			return a
		}
		return b
	}
	if b.IsConst() {
		if b.val == 1 {
			return b
		}
		return a
	}
	if a == b {
		return a
	}
	if a.id > b.id {
		a, b = b, a
	}
	return tt.mk(OpBOr, 0, 0, "", a, b, nil)
}

func (tt *TermTable) Eq(a, b *Term) *Term {
	if a.w != b.w {
		panic(fmt.Sprintf("Eq width mismatch %d vs %d", a.w, b.w))
	}
	if a == b {
		return tt.True
	}
	if a.IsConst() && b.IsConst() {
		return tt.Bool(a.val == b.val)
	}
	if a.w != 0 && (a.hi < b.lo || b.hi < a.lo) {
		return tt.False
	}
	if a.IsConst() {
		a, b = b, a
	}
	if a.w == 0 && b.IsConst() {
		if b.val == 1 {
			return a
		}
		return tt.Not(a)
	}
	// eq(ite(c,x,y), k) with constant leaves
	if b.IsConst() && a.op == OpIte && isConstTree(a, 8) {
		return tt.Or(tt.And(a.a[0], tt.Eq(a.a[1], b)), tt.And(tt.Not(a.a[0]), tt.Eq(a.a[2], b)))
	}
	// eq(zext(x), k) -> eq(x, k')
	if b.IsConst() && a.op == OpZext {
		if b.val > maskw(a.a[0].w) {
			return tt.False
		}
		return tt.Eq(a.a[0], tt.Const(a.a[0].w, b.val))
	}
	if a.op == OpZext && b.op == OpZext && a.a[0].w == b.a[0].w {
		return tt.Eq(a.a[0], b.a[0])
	}
	// eq(x + c1, c2) -> eq(x, c2-c1)
	if b.IsConst() && a.op == OpAdd && a.a[1].IsConst() {
		return tt.Eq(a.a[0], tt.Const(a.w, b.val-a.a[1].val))
	}
	if a.id > b.id {
		a, b = b, a
	}
	return tt.mk(OpEq, 0, 0, "", a, b, nil)
}

func (tt *TermTable) Cmp(op Op, a, b *Term) *Term {
	if a.w != b.w {
		panic(fmt.Sprintf("Cmp width mismatch %d vs %d", a.w, b.w))
	}
	w := a.w
	if a.IsConst() && b.IsConst() {
		switch op {
		case OpUlt:
			return tt.Bool(a.val < b.val)
		case OpUle:
			return tt.Bool(a.val <= b.val)
		case OpSlt:
			return tt.Bool(sext64(a.val, w) < sext64(b.val, w))
		case OpSle:
			return tt.Bool(sext64(a.val, w) <= sext64(b.val, w))
		}
	}
	if a == b {
		return tt.Bool(op == OpUle || op == OpSle)
	}
	// signed comparisons of certainly non-negative values are unsigned ones
	if (op == OpSlt || op == OpSle) && a.nonNeg() && b.nonNeg() {
		if op == OpSlt {
			op = OpUlt
		} else {
			op = OpUle
		}
	}
	switch op {
	case OpUlt:
		if a.hi < b.lo {
			return tt.True
		}
		if a.lo >= b.hi {
			return tt.False
		}
	case OpUle:
		if a.hi <= b.lo {
			return tt.True
		}
		if a.lo > b.hi {
			return tt.False
		}
	case OpSlt, OpSle:
		// one side certainly negative constant etc. is left to the solver
	}
	// comparisons against ite-trees of constants
	if b.IsConst() && a.op == OpIte && isConstTree(a, 8) {
		return tt.Or(tt.And(a.a[0], tt.Cmp(op, a.a[1], b)), tt.And(tt.Not(a.a[0]), tt.Cmp(op, a.a[2], b)))
	}
	if a.IsConst() && b.op == OpIte && isConstTree(b, 8) {
		return tt.Or(tt.And(b.a[0], tt.Cmp(op, a, b.a[1])), tt.And(tt.Not(b.a[0]), tt.Cmp(op, a, b.a[2])))
	}
	return tt.mk(op, 0, 0, "", a, b, nil)
}

func (tt *TermTable) Ite(c, a, b *Term) *Term {
	if a.w != b.w {
		panic(fmt.Sprintf("Ite width mismatch %d vs %d", a.w, b.w))
	}
	if c.IsConst() {
		if c.val == 1 {
			return a
		}
		return b
	}
	if a == b {
		return a
	}
	if a.w == 0 {
		// boolean ite
		if a.IsConst() && b.IsConst() {
			if a.val == 1 {
				return c
			}
			return tt.Not(c)
		}
		return tt.Or(tt.And(c, a), tt.And(tt.Not(c), b))
	}
	// ite(c, x, ite(c, y, z)) -> ite(c, x, z)
	if b.op == OpIte && b.a[0] == c {
		b = b.a[2]
	}
	if a.op == OpIte && a.a[0] == c {
		a = a.a[1]
	}
	if a == b {
		return a
	}
	return tt.mk(OpIte, a.w, 0, "", c, a, b)
}

func (tt *TermTable) Zext(a *Term, w uint8) *Term {
	if a.w == w {
		return a
	}
	if a.w > w {
		panic("zext to smaller")
	}
	if a.IsConst() {
		return tt.Const(w, a.val)
	}
	if a.op == OpZext {
		return tt.Zext(a.a[0], w)
	}
	if a.op == OpIte && isConstTree(a, 6) {
		return tt.Ite(a.a[0], tt.Zext(a.a[1], w), tt.Zext(a.a[2], w))
	}
	return tt.mk(OpZext, w, 0, "", a, nil, nil)
}

func (tt *TermTable) Sext(a *Term, w uint8) *Term {
	if a.w == w {
		return a
	}
	if a.w > w {
		panic("sext to smaller")
	}
	if a.IsConst() {
		return tt.Const(w, uint64(sext64(a.val, a.w)))
	}
	if a.nonNeg() {
		return tt.Zext(a, w)
	}
	if a.op == OpIte && isConstTree(a, 6) {
		return tt.Ite(a.a[0], tt.Sext(a.a[1], w), tt.Sext(a.a[2], w))
	}
	return tt.mk(OpSext, w, 0, "", a, nil, nil)
}

func (tt *TermTable) Trunc(a *Term, w uint8) *Term {
	if a.w == w {
		return a
	}
	if a.w < w {
		panic("trunc to larger")
	}
	if a.IsConst() {
		return tt.Const(w, a.val)
	}
	if (a.op == OpZext || a.op == OpSext) && a.a[0].w <= w {
		if a.a[0].w == w {
			return a.a[0]
		}
		if a.op == OpZext {
			return tt.Zext(a.a[0], w)
		}
		return tt.Sext(a.a[0], w)
	}
	if a.op == OpIte && isConstTree(a, 6) {
		return tt.Ite(a.a[0], tt.Trunc(a.a[1], w), tt.Trunc(a.a[2], w))
	}
	return tt.mk(OpTrunc, w, 0, "", a, nil, nil)
}

func (tt *TermTable) B2BV(c *Term, w uint8) *Term {
	if c.IsConst() {
		return tt.Const(w, c.val)
	}
	return tt.Ite(c, tt.Const(w, 1), tt.Const(w, 0))
}

// UF builds an application of the uninterpreted function name to a.
func (tt *TermTable) UF(name string, a *Term, w uint8) *Term {
	t := tt.mk(OpUF, w, 0, name, a, nil, nil)
	if !tt.ufSeen[t.id] {
		if tt.ufSeen == nil {
			tt.ufSeen = map[int]bool{}
		}
		tt.ufSeen[t.id] = true
		tt.ufApps = append(tt.ufApps, t)
	}
	return t
}

// ---------- printing ----------

func (tt *TermTable) sortOf(t *Term) string {
	if t.w == 0 {
		return "Bool"
	}
	return fmt.Sprintf("(_ BitVec %d)", t.w)
}

func constSMT(t *Term) string {
	if t.w == 0 {
		if t.val == 1 {
			return "true"
		}
		return "false"
	}
	return fmt.Sprintf("(_ bv%d %d)", t.val, t.w)
}

func (t *Term) ref() string {
	switch t.op {
	case OpConst:
		return constSMT(t)
	case OpVar:
		return "|" + t.name + "|"
	}
	return fmt.Sprintf("t%d", t.id)
}

// defSMT returns the body of the define-fun of a non-leaf term.
func (tt *TermTable) defSMT(t *Term) string {
	switch t.op {
	case OpZext:
		return fmt.Sprintf("((_ zero_extend %d) %s)", t.w-t.a[0].w, t.a[0].ref())
	case OpSext:
		return fmt.Sprintf("((_ sign_extend %d) %s)", t.w-t.a[0].w, t.a[0].ref())
	case OpTrunc:
		return fmt.Sprintf("((_ extract %d 0) %s)", t.w-1, t.a[0].ref())
	case OpIte:
		return fmt.Sprintf("(ite %s %s %s)", t.a[0].ref(), t.a[1].ref(), t.a[2].ref())
	case OpNot, OpNeg, OpBNot:
		return fmt.Sprintf("(%s %s)", opNames[t.op], t.a[0].ref())
	case OpUF:
		return fmt.Sprintf("(|uf_%s| %s)", t.name, t.a[0].ref())
	}
	return fmt.Sprintf("(%s %s %s)", opNames[t.op], t.a[0].ref(), t.a[1].ref())
}

// String gives a readable (tree) rendering, for diagnostics only.
func (tt *TermTable) String(t *Term) string {
	var sb strings.Builder
	var rec func(t *Term, d int)
	rec = func(t *Term, d int) {
		if t.op == OpConst {
			if t.w == 0 {
				sb.WriteString(constSMT(t))
			} else {
				fmt.Fprintf(&sb, "%d", t.val)
			}
			return
		}
		if t.op == OpVar {
			sb.WriteString(t.name)
			return
		}
		if d > 6 {
			fmt.Fprintf(&sb, "t%d", t.id)
			return
		}
		nm := opNames[t.op]
		switch t.op {
		case OpUF:
			nm = "uf_" + t.name
		case OpZext:
			nm = "zext"
		case OpSext:
			nm = "sext"
		case OpTrunc:
			nm = fmt.Sprintf("trunc%d", t.w)
		}
		sb.WriteString("(" + nm)
		for _, x := range t.a {
			if x != nil {
				sb.WriteString(" ")
				rec(x, d+1)
			}
		}
		sb.WriteString(")")
	}
	rec(t, 0)
	return sb.String()
}

// ---------- evaluation ----------

type Model struct {
	vals  map[int]uint64 // var (and UF application) term id -> value
	cache map[int]uint64
	ufs   []*Term
}

// evalUF: value from the solver's model if it has one; otherwise stay congruent
// with the applications already valued, falling back to the real product.
func (m *Model) evalUF(t *Term) uint64 {
	if v, ok := m.vals[t.id]; ok {
		return v
	}
	x := m.Eval(t.a[0])
	for _, o := range m.ufs {
		if o.name == t.name && o.id != t.id {
			if v, ok := m.vals[o.id]; ok && m.Eval(o.a[0]) == x {
				m.vals[t.id] = v
				return v
			}
		}
	}
	v := (x * 9920624304325388887) & maskw(t.w)
	m.vals[t.id] = v
	m.ufs = append(m.ufs, t)
	return v
}

func NewModel() *Model { return &Model{vals: map[int]uint64{}, cache: map[int]uint64{}} }

func (m *Model) Eval(t *Term) uint64 {
	switch t.op {
	case OpConst:
		return t.val
	case OpVar:
		return m.vals[t.id] & maskw(t.w)
	}
	if v, ok := m.cache[t.id]; ok {
		return v
	}
	if t.op == OpUF {
		return m.evalUF(t)
	}
	v := m.eval1(t)
	m.cache[t.id] = v
	return v
}

func (m *Model) eval1(t *Term) uint64 {
	w := t.w
	mk := maskw(w)
	switch t.op {
	case OpIte:
		if m.Eval(t.a[0]) == 1 {
			return m.Eval(t.a[1])
		}
		return m.Eval(t.a[2])
	case OpBAnd:
		if m.Eval(t.a[0]) == 0 {
			return 0
		}
		return m.Eval(t.a[1])
	case OpBOr:
		if m.Eval(t.a[0]) == 1 {
			return 1
		}
		return m.Eval(t.a[1])
	}
	x := m.Eval(t.a[0])
	var y uint64
	if t.a[1] != nil {
		y = m.Eval(t.a[1])
	}
	aw := t.a[0].w
	b2u := func(b bool) uint64 {
		if b {
			return 1
		}
		return 0
	}
	switch t.op {
	case OpAdd:
		return (x + y) & mk
	case OpSub:
		return (x - y) & mk
	case OpMul:
		return (x * y) & mk
	case OpUDiv:
		if y == 0 {
			return mk
		}
		return x / y
	case OpURem:
		if y == 0 {
			return x
		}
		return x % y
	case OpSDiv:
		sx, sy := sext64(x, w), sext64(y, w)
		if sy == 0 {
			if sx < 0 {
				return 1
			}
			return mk
		}
		if sy == -1 {
			return uint64(-sx) & mk
		}
		return uint64(sx/sy) & mk
	case OpSRem:
		sx, sy := sext64(x, w), sext64(y, w)
		if sy == 0 {
			return x
		}
		if sy == -1 {
			return 0
		}
		return uint64(sx%sy) & mk
	case OpAnd:
		return x & y
	case OpOr:
		return x | y
	case OpXor:
		return x ^ y
	case OpShl:
		if y >= uint64(w) {
			return 0
		}
		return (x << y) & mk
	case OpLShr:
		if y >= uint64(w) {
			return 0
		}
		return x >> y
	case OpAShr:
		if y >= uint64(w) {
			y = uint64(w) - 1
		}
		return uint64(sext64(x, w)>>y) & mk
	case OpNot:
		return ^x & mk
	case OpNeg:
		return (-x) & mk
	case OpEq:
		return b2u(x == y)
	case OpUlt:
		return b2u(x < y)
	case OpUle:
		return b2u(x <= y)
	case OpSlt:
		return b2u(sext64(x, aw) < sext64(y, aw))
	case OpSle:
		return b2u(sext64(x, aw) <= sext64(y, aw))
	case OpZext:
		return x
	case OpSext:
		return uint64(sext64(x, aw)) & mk
	case OpTrunc:
		return x & mk
	case OpBNot:
		return x ^ 1
	}
	panic("eval: bad op")
}


// Rebuild constructs op(args) through the simplifying constructors.
func (tt *TermTable) Rebuild(t *Term, a0, a1, a2 *Term) *Term {
	switch t.op {
	case OpAdd, OpSub, OpMul, OpUDiv, OpSDiv, OpURem, OpSRem, OpAnd, OpOr, OpXor, OpShl, OpLShr, OpAShr:
		return tt.Bin(t.op, a0, a1)
	case OpNot, OpNeg:
		return tt.Un(t.op, a0)
	case OpEq:
		return tt.Eq(a0, a1)
	case OpUlt, OpUle, OpSlt, OpSle:
		return tt.Cmp(t.op, a0, a1)
	case OpIte:
		return tt.Ite(a0, a1, a2)
	case OpZext:
		return tt.Zext(a0, t.w)
	case OpSext:
		return tt.Sext(a0, t.w)
	case OpTrunc:
		return tt.Trunc(a0, t.w)
	case OpBAnd:
		return tt.And(a0, a1)
	case OpBOr:
		return tt.Or(a0, a1)
	case OpBNot:
		return tt.Not(a0)
	}
	return t
}
