package main

// A small per-path interval domain over terms. It is only used to avoid solver
// queries whose answer follows from simple bounds already on the path (array
// bounds after a length check, comparisons of sizes with constants, ...).
// Everything it concludes is implied by the path condition; when it cannot
// decide, the solver is asked.

type ivU struct{ lo, hi uint64 }
type ivS struct{ lo, hi int64 }

type bounds struct {
	u map[int]ivU
	s map[int]ivS
}

func (b *bounds) clone() *bounds {
	if b == nil {
		return nil
	}
	c := &bounds{u: make(map[int]ivU, len(b.u)), s: make(map[int]ivS, len(b.s))}
	for k, v := range b.u {
		c.u[k] = v
	}
	for k, v := range b.s {
		c.s[k] = v
	}
	return c
}

func minS(w uint8) int64 {
	if w >= 64 {
		return -1 << 63
	}
	return -(int64(1) << (w - 1))
}
func maxS(w uint8) int64 {
	if w >= 64 {
		return 1<<63 - 1
	}
	return int64(1)<<(w-1) - 1
}

func (st *State) bnd() *bounds {
	if st.bounds == nil {
		st.bounds = &bounds{u: map[int]ivU{}, s: map[int]ivS{}}
	}
	return st.bounds
}

// rngU: unsigned range of t on this path.
func (st *State) rngU(t *Term, depth int) ivU {
	if t.op == OpConst {
		return ivU{t.val, t.val}
	}
	if v, ok := st.known[t.id]; ok {
		return ivU{v, v}
	}
	r := ivU{t.lo, t.hi}
	m := maskw(t.w)
	if st.bounds != nil {
		if l, ok := st.bounds.u[t.id]; ok {
			if l.lo > r.lo {
				r.lo = l.lo
			}
			if l.hi < r.hi {
				r.hi = l.hi
			}
		}
		if l, ok := st.bounds.s[t.id]; ok && l.lo >= 0 {
			if uint64(l.lo) > r.lo {
				r.lo = uint64(l.lo)
			}
			if uint64(l.hi) < r.hi {
				r.hi = uint64(l.hi)
			}
		}
	}
	if depth <= 0 {
		return r
	}
	meet := func(lo, hi uint64) {
		if lo > r.lo {
			r.lo = lo
		}
		if hi < r.hi {
			r.hi = hi
		}
	}
	switch t.op {
	case OpZext:
		x := st.rngU(t.a[0], depth-1)
		meet(x.lo, x.hi)
	case OpTrunc:
		x := st.rngU(t.a[0], depth-1)
		if x.hi <= m {
			meet(x.lo, x.hi)
		}
	case OpSext:
		x := st.rngU(t.a[0], depth-1)
		if x.hi <= maskw(t.a[0].w)>>1 {
			meet(x.lo, x.hi)
		}
	case OpIte:
		a := st.rngU(t.a[1], depth-1)
		b := st.rngU(t.a[2], depth-1)
		lo, hi := a.lo, a.hi
		if b.lo < lo {
			lo = b.lo
		}
		if b.hi > hi {
			hi = b.hi
		}
		meet(lo, hi)
	case OpAdd:
		x := st.rngU(t.a[0], depth-1)
		y := st.rngU(t.a[1], depth-1)
		if y.lo == y.hi && y.lo > m>>1 {
			// adding a negative constant: x - k
			k := (m - y.lo) + 1
			if x.lo >= k {
				meet(x.lo-k, x.hi-k)
			}
		} else {
			h := x.hi + y.hi
			if h >= x.hi && h <= m { // no wrap
				meet(x.lo+y.lo, h)
			}
		}
	case OpSub:
		x := st.rngU(t.a[0], depth-1)
		y := st.rngU(t.a[1], depth-1)
		if x.lo >= y.hi {
			meet(x.lo-y.hi, x.hi-y.lo)
		}
	case OpLShr:
		if t.a[1].IsConst() && t.a[1].val < 64 {
			x := st.rngU(t.a[0], depth-1)
			meet(x.lo>>t.a[1].val, x.hi>>t.a[1].val)
		}
	case OpAnd:
		x := st.rngU(t.a[0], depth-1)
		y := st.rngU(t.a[1], depth-1)
		h := x.hi
		if y.hi < h {
			h = y.hi
		}
		meet(0, h)
	}
	return r
}

// rngS: signed range of t on this path.
func (st *State) rngS(t *Term, depth int) ivS {
	w := t.w
	u := st.rngU(t, depth)
	if u.hi <= uint64(maxS(w)) {
		return ivS{int64(u.lo), int64(u.hi)}
	}
	r := ivS{minS(w), maxS(w)}
	if u.lo > uint64(maxS(w)) { // certainly negative
		r = ivS{sext64(u.lo, w), sext64(u.hi, w)}
	}
	if st.bounds != nil {
		if l, ok := st.bounds.s[t.id]; ok {
			if l.lo > r.lo {
				r.lo = l.lo
			}
			if l.hi < r.hi {
				r.hi = l.hi
			}
		}
	}
	if depth > 0 {
		switch t.op {
		case OpAdd, OpSub:
			x := st.rngS(t.a[0], depth-1)
			y := st.rngS(t.a[1], depth-1)
			var lo, hi int64
			ok := true
			if t.op == OpAdd {
				lo, hi = x.lo+y.lo, x.hi+y.hi
				if (y.lo > 0 && lo < x.lo) || (y.lo < 0 && lo > x.lo) || (y.hi > 0 && hi < x.hi) || (y.hi < 0 && hi > x.hi) {
					ok = false
				}
			} else {
				lo, hi = x.lo-y.hi, x.hi-y.lo
				if (y.hi > 0 && lo > x.lo) || (y.hi < 0 && lo < x.lo) || (y.lo > 0 && hi > x.hi) || (y.lo < 0 && hi < x.hi) {
					ok = false
				}
			}
			if ok && lo >= minS(w) && hi <= maxS(w) {
				if lo > r.lo {
					r.lo = lo
				}
				if hi < r.hi {
					r.hi = hi
				}
			}
		case OpSext:
			x := st.rngS(t.a[0], depth-1)
			if x.lo > r.lo {
				r.lo = x.lo
			}
			if x.hi < r.hi {
				r.hi = x.hi
			}
		case OpIte:
			a := st.rngS(t.a[1], depth-1)
			b := st.rngS(t.a[2], depth-1)
			lo, hi := a.lo, a.hi
			if b.lo < lo {
				lo = b.lo
			}
			if b.hi > hi {
				hi = b.hi
			}
			if lo > r.lo {
				r.lo = lo
			}
			if hi < r.hi {
				r.hi = hi
			}
		}
	}
	return r
}

const ivDepth = 4

// decideCmp tries to decide a comparison / equality with the intervals.
func (st *State) decideCmp(t *Term) (val bool, ok bool) {
	switch t.op {
	case OpUlt, OpUle:
		a, b := st.rngU(t.a[0], ivDepth), st.rngU(t.a[1], ivDepth)
		if t.op == OpUlt {
			if a.hi < b.lo {
				return true, true
			}
			if a.lo >= b.hi {
				return false, true
			}
		} else {
			if a.hi <= b.lo {
				return true, true
			}
			if a.lo > b.hi {
				return false, true
			}
		}
	case OpSlt, OpSle:
		a, b := st.rngS(t.a[0], ivDepth), st.rngS(t.a[1], ivDepth)
		if t.op == OpSlt {
			if a.hi < b.lo {
				return true, true
			}
			if a.lo >= b.hi {
				return false, true
			}
		} else {
			if a.hi <= b.lo {
				return true, true
			}
			if a.lo > b.hi {
				return false, true
			}
		}
	case OpEq:
		if t.a[0].w == 0 {
			return false, false
		}
		a, b := st.rngU(t.a[0], ivDepth), st.rngU(t.a[1], ivDepth)
		if a.hi < b.lo || b.hi < a.lo {
			return false, true
		}
		if a.lo == a.hi && b.lo == b.hi && a.lo == b.lo {
			return true, true
		}
	}
	return false, false
}

func (st *State) tightenU(t *Term, lo, hi uint64) {
	if t.op == OpConst {
		return
	}
	b := st.bnd()
	cur, ok := b.u[t.id]
	if !ok {
		cur = ivU{0, maskw(t.w)}
	}
	ch := false
	if lo > cur.lo {
		cur.lo = lo
		ch = true
	}
	if hi < cur.hi {
		cur.hi = hi
		ch = true
	}
	if ch || !ok {
		b.u[t.id] = cur
		st.simpMemo = nil
	}
	// look through zero extension and additions of constants
	switch t.op {
	case OpZext:
		st.tightenU(t.a[0], lo, minU(hi, maskw(t.a[0].w)))
	}
}

func minU(a, b uint64) uint64 {
	if a < b {
		return a
	}
	return b
}

func (st *State) tightenS(t *Term, lo, hi int64) {
	if t.op == OpConst {
		return
	}
	b := st.bnd()
	cur, ok := b.s[t.id]
	if !ok {
		cur = ivS{minS(t.w), maxS(t.w)}
	}
	ch := false
	if lo > cur.lo {
		cur.lo = lo
		ch = true
	}
	if hi < cur.hi {
		cur.hi = hi
		ch = true
	}
	if ch || !ok {
		b.s[t.id] = cur
		st.simpMemo = nil
	}
	if t.op == OpZext && lo >= 0 {
		x := t.a[0]
		st.tightenU(x, uint64(lo), minU(uint64(hi), maskw(x.w)))
	} else if t.op == OpSext {
		x := t.a[0]
		l, h := lo, hi
		if l < minS(x.w) {
			l = minS(x.w)
		}
		if h > maxS(x.w) {
			h = maxS(x.w)
		}
		st.tightenS(x, l, h)
	}
}

// learnCmp records the bounds a comparison that is known to be `truth` implies.
func (st *State) learnCmp(c *Term, truth bool) {
	a, b := c.a[0], c.a[1]
	op := c.op
	if !truth {
		// not (a < b)  ==  b <= a ;  not (a <= b) == b < a
		a, b = b, a
		switch op {
		case OpUlt:
			op = OpUle
		case OpUle:
			op = OpUlt
		case OpSlt:
			op = OpSle
		case OpSle:
			op = OpSlt
		}
	}
	switch op {
	case OpUlt, OpUle:
		ra, rb := st.rngU(a, ivDepth), st.rngU(b, ivDepth)
		d := uint64(0)
		if op == OpUlt {
			d = 1
		}
		// a <= b.hi - d ; b >= a.lo + d
		if rb.hi >= d {
			st.tightenU(a, 0, rb.hi-d)
		}
		if ra.lo+d >= ra.lo {
			st.tightenU(b, ra.lo+d, maskw(b.w))
		}
	case OpSlt, OpSle:
		ra, rb := st.rngS(a, ivDepth), st.rngS(b, ivDepth)
		d := int64(0)
		if op == OpSlt {
			d = 1
		}
		if rb.hi-d <= rb.hi {
			st.tightenS(a, minS(a.w), rb.hi-d)
		}
		if ra.lo+d >= ra.lo {
			st.tightenS(b, ra.lo+d, maxS(b.w))
		}
	}
}
