package main

// Operators, conversions, memory access, slices, append/copy.

import (
	"fmt"
	"go/token"
	"go/types"

	"golang.org/x/tools/go/ssa"
)

func (ex *Executor) binop(st *State, op token.Token, a, b Value, TA, TB types.Type) Value {
	tt := ex.tt
	switch x := a.(type) {
	case *Term:
		y, ok := b.(*Term)
		if !ok {
			unsupported("binop %s on term and %T", op, b)
		}
		w, signed, _ := intInfo(TA)
		if x.IsBool() {
			switch op {
			case token.EQL:
				return tt.Eq(x, y)
			case token.NEQ:
				return tt.Not(tt.Eq(x, y))
			case token.AND, token.LAND:
				return tt.And(x, y)
			case token.OR, token.LOR:
				return tt.Or(x, y)
			}
			unsupported("bool binop %s", op)
		}
		switch op {
		case token.ADD:
			return tt.Bin(OpAdd, x, y)
		case token.SUB:
			return tt.Bin(OpSub, x, y)
		case token.MUL:
			if ex.opt.UFMul && w == 64 {
				// over-approximation: multiplication by the hash prime as an uninterpreted function
				if y.IsConst() && y.val == 9920624304325388887 && !x.IsConst() {
					return tt.UF("mulprime", x, 64)
				}
				if x.IsConst() && x.val == 9920624304325388887 && !y.IsConst() {
					return tt.UF("mulprime", y, 64)
				}
			}
			return tt.Bin(OpMul, x, y)
		case token.QUO, token.REM:
			ex.require(st, tt.Not(tt.Eq(y, tt.Const(w, 0))), "integer divide by zero")
			if signed {
				if op == token.QUO {
					return tt.Bin(OpSDiv, x, y)
				}
				return tt.Bin(OpSRem, x, y)
			}
			if op == token.QUO {
				return tt.Bin(OpUDiv, x, y)
			}
			return tt.Bin(OpURem, x, y)
		case token.AND:
			return tt.Bin(OpAnd, x, y)
		case token.OR:
			return tt.Bin(OpOr, x, y)
		case token.XOR:
			return tt.Bin(OpXor, x, y)
		case token.AND_NOT:
			return tt.Bin(OpAnd, x, tt.Un(OpNot, y))
		case token.SHL, token.SHR:
			wy, sy, _ := intInfo(TB)
			if sy {
				ex.require(st, tt.Not(tt.Cmp(OpSlt, y, tt.Const(wy, 0))), "negative shift amount")
			}
			// bring the count to the width of x, saturating at w
			var cnt *Term
			if wy > w {
				cnt = tt.Ite(tt.Cmp(OpUlt, y, tt.Const(wy, uint64(w))), tt.Trunc(y, w), tt.Const(w, uint64(w)))
			} else {
				cnt = tt.Zext(y, w)
			}
			if op == token.SHL {
				return tt.Bin(OpShl, x, cnt)
			}
			if signed {
				return tt.Bin(OpAShr, x, cnt)
			}
			return tt.Bin(OpLShr, x, cnt)
		case token.EQL:
			return tt.Eq(x, y)
		case token.NEQ:
			return tt.Not(tt.Eq(x, y))
		case token.LSS, token.LEQ, token.GTR, token.GEQ:
			lt, le := OpUlt, OpUle
			if signed {
				lt, le = OpSlt, OpSle
			}
			switch op {
			case token.LSS:
				return tt.Cmp(lt, x, y)
			case token.LEQ:
				return tt.Cmp(le, x, y)
			case token.GTR:
				return tt.Cmp(lt, y, x)
			default:
				return tt.Cmp(le, y, x)
			}
		}
	case StringV:
		y := b.(StringV)
		switch op {
		case token.ADD:
			return StringV{x.s + y.s}
		case token.EQL:
			return tt.Bool(x.s == y.s)
		case token.NEQ:
			return tt.Bool(x.s != y.s)
		case token.LSS:
			return tt.Bool(x.s < y.s)
		case token.LEQ:
			return tt.Bool(x.s <= y.s)
		case token.GTR:
			return tt.Bool(x.s > y.s)
		case token.GEQ:
			return tt.Bool(x.s >= y.s)
		}
	case Ptr:
		y := b.(Ptr)
		eq := x.obj == y.obj && x.base == y.base && x.idx == y.idx
		if x.obj == y.obj && x.base == y.base && x.idx != y.idx && x.obj != 0 {
			unsupported("comparison of pointers with symbolic indices")
		}
		switch op {
		case token.EQL:
			return tt.Bool(eq)
		case token.NEQ:
			return tt.Bool(!eq)
		}
	case SliceV:
		y := b.(SliceV)
		if y.obj != 0 && x.obj != 0 {
			unsupported("slice comparison with non-nil")
		}
		eq := x.obj == 0 && y.obj == 0
		switch op {
		case token.EQL:
			return tt.Bool(eq)
		case token.NEQ:
			return tt.Bool(!eq)
		}
	case FuncV:
		y := b.(FuncV)
		eq := x.fn == nil && x.builtin == nil && y.fn == nil && y.builtin == nil
		switch op {
		case token.EQL:
			return tt.Bool(eq)
		case token.NEQ:
			return tt.Bool(!eq)
		}
	case IfaceV:
		y := b.(IfaceV)
		eq := ex.ifaceEq(x, y)
		switch op {
		case token.EQL:
			return eq
		case token.NEQ:
			return tt.Not(eq)
		}
	case *AggV:
		y := b.(*AggV)
		eq := ex.aggEq(x, y)
		switch op {
		case token.EQL:
			return eq
		case token.NEQ:
			return tt.Not(eq)
		}
	}
	unsupported("binop %s on %T", op, a)
	return nil
}

func (ex *Executor) valueEq(a, b Value) *Term {
	tt := ex.tt
	switch x := a.(type) {
	case *Term:
		return tt.Eq(x, b.(*Term))
	case StringV:
		return tt.Bool(x.s == b.(StringV).s)
	case Ptr:
		y := b.(Ptr)
		return tt.Bool(x.obj == y.obj && x.base == y.base && x.idx == y.idx)
	case IfaceV:
		return ex.ifaceEq(x, b.(IfaceV))
	case *AggV:
		return ex.aggEq(x, b.(*AggV))
	}
	unsupported("equality on %T", a)
	return nil
}

func (ex *Executor) aggEq(x, y *AggV) *Term {
	r := ex.tt.True
	for i := range x.elems {
		r = ex.tt.And(r, ex.valueEq(x.elems[i], y.elems[i]))
	}
	return r
}

func (ex *Executor) ifaceEq(x, y IfaceV) *Term {
	if x.typ == nil || y.typ == nil {
		return ex.tt.Bool(x.typ == nil && y.typ == nil)
	}
	if !types.Identical(x.typ, y.typ) {
		return ex.tt.False
	}
	return ex.valueEq(x.val, y.val)
}

func (ex *Executor) unop(st *State, x *ssa.UnOp, a Value) Value {
	tt := ex.tt
	switch x.Op {
	case token.MUL:
		p := a.(Ptr)
		if p.isNil() {
			ex.require(st, tt.False, "nil pointer dereference")
		}
		return ex.load(st, p, x.Type())
	case token.SUB:
		return tt.Un(OpNeg, a.(*Term))
	case token.XOR:
		return tt.Un(OpNot, a.(*Term))
	case token.NOT:
		return tt.Not(a.(*Term))
	}
	unsupported("unop %s", x.Op)
	return nil
}

func (ex *Executor) convert(st *State, v Value, from, to types.Type) Value {
	tt := ex.tt
	wf, sf, okf := intInfo(from)
	wt, _, okt := intInfo(to)
	if okf && okt && wf != 0 && wt != 0 {
		t := v.(*Term)
		switch {
		case wt == wf:
			return t
		case wt < wf:
			return tt.Trunc(t, wt)
		case sf:
			return tt.Sext(t, wt)
		default:
			return tt.Zext(t, wt)
		}
	}
	// string <-> []byte for concrete values
	if isString(from) {
		if sl, ok := to.Underlying().(*types.Slice); ok {
			s := v.(StringV).s
			sv := ex.makeSlice(st, sl.Elem(), len(s), len(s), "string->bytes")
			o := st.wobj(sv.obj)
			for i := 0; i < len(s); i++ {
				o.set(i, tt.Const(8, uint64(s[i])))
			}
			return sv
		}
		if isString(to) {
			return v
		}
	}
	if isString(to) {
		if sv, ok := v.(SliceV); ok {
			n := ex.cint(st, sv.len)
			off := ex.cint(st, sv.off)
			b := make([]byte, n)
			for i := 0; i < n; i++ {
				c := st.obj(sv.obj).get(sv.base + (off+i)*sv.stride).(*Term)
				b[i] = byte(ex.cval(st, c))
			}
			return StringV{string(b)}
		}
		if okf && wf != 0 {
			return StringV{string(rune(ex.cval(st, v.(*Term))))}
		}
	}
	if _, ok := to.Underlying().(*types.Pointer); ok {
		return v
	}
	if _, ok := to.Underlying().(*types.Slice); ok {
		return v
	}
	unsupported("convert %s -> %s", from, to)
	return nil
}

// ---------- memory ----------

// candidates lists the element indices a symbolic pointer index may denote.
func (ex *Executor) candidates(st *State, p Ptr, leaves int) []int {
	o := st.obj(p.obj)
	maxc := 0
	if p.stride > 0 {
		maxc = (o.n - p.base - leaves) / p.stride // last valid index
	}
	lo, hi := p.idx.lo, p.idx.hi
	if int64(lo) < 0 {
		lo = 0
	}
	if hi > uint64(maxc) || int64(hi) < 0 {
		hi = uint64(maxc)
	}
	seen := map[uint64]bool{}
	var out []int
	if isConstTree(p.idx, 12) {
		var rec func(t *Term)
		rec = func(t *Term) {
			if t.IsConst() {
				if !seen[t.val] && t.val >= lo && t.val <= hi {
					seen[t.val] = true
					out = append(out, int(t.val))
				}
				return
			}
			rec(t.a[1])
			rec(t.a[2])
		}
		rec(p.idx)
		return out
	}
	for c := lo; c <= hi; c++ {
		out = append(out, int(c))
	}
	return out
}

const maxCandidates = 600

func (ex *Executor) resolve(st *State, p Ptr, leaves int) (Ptr, []int) {
	if p.idx == nil {
		return p, nil
	}
	if p.idx.IsConst() {
		p.base += int(int64(p.idx.val)) * p.stride
		p.idx = nil
		return p, nil
	}
	if v, ok := st.known[p.idx.id]; ok {
		p.base += int(int64(v)) * p.stride
		p.idx = nil
		return p, nil
	}
	c := ex.candidates(st, p, leaves)
	if len(c) == 1 {
		p.base += c[0] * p.stride
		p.idx = nil
		return p, nil
	}
	if len(c) == 0 || len(c) > maxCandidates {
		v := ex.cint(st, p.idx)
		p.base += v * p.stride
		p.idx = nil
		return p, nil
	}
	return p, c
}

func (ex *Executor) load(st *State, p Ptr, T types.Type) Value {
	n := ex.lay.leaves(T)
	p, cands := ex.resolve(st, p, n)
	o := st.obj(p.obj)
	if cands == nil {
		if p.base < 0 || p.base+n > o.n {
			unsupported("load outside object %s (%d+%d of %d)", o.label, p.base, n, o.n)
		}
		if n == 1 {
			v, _ := ex.unflatten([]Value{o.get(p.base)}, T)
			return v
		}
		cells := make([]Value, n)
		for i := range cells {
			cells[i] = o.get(p.base + i)
		}
		v, _ := ex.unflatten(cells, T)
		return v
	}
	cells := make([]Value, n)
	for k := 0; k < n; k++ {
		var acc *Term
		okAll := true
		for i := len(cands) - 1; i >= 0; i-- {
			c := cands[i]
			t, isT := o.get(p.base + c*p.stride + k).(*Term)
			if !isT {
				okAll = false
				break
			}
			if acc == nil {
				acc = t
			} else {
				acc = ex.tt.Ite(ex.tt.Eq(p.idx, ex.c64(c)), t, acc)
			}
		}
		if !okAll {
			v := ex.cint(st, p.idx)
			p.base += v * p.stride
			p.idx = nil
			return ex.load(st, p, T)
		}
		cells[k] = acc
	}
	v, _ := ex.unflatten(cells, T)
	return v
}

func (ex *Executor) store(st *State, p Ptr, v Value, T types.Type) {
	if p.isNil() {
		ex.require(st, ex.tt.False, "nil pointer dereference")
	}
	if ex.nInitObjs > 0 && p.obj > 0 && p.obj < ex.nInitObjs {
		// package-level state is written after initialisation: instances are not independent
		ex.recordViolation(st, "shared-state: a package-level variable ("+st.obj(p.obj).label+") is written after package initialisation [C13]", st.model)
	}
	cells := ex.flatten(v, T, nil)
	n := len(cells)
	p, cands := ex.resolve(st, p, n)
	if cands != nil {
		for _, c := range cells {
			if _, ok := c.(*Term); !ok {
				x := ex.cint(st, p.idx)
				p.base += x * p.stride
				p.idx = nil
				cands = nil
				break
			}
		}
	}
	o := st.wobj(p.obj)
	if cands == nil {
		if p.base < 0 || p.base+n > o.n {
			unsupported("store outside object %s (%d+%d of %d)", o.label, p.base, n, o.n)
		}
		for i, c := range cells {
			o.set(p.base+i, c)
		}
		return
	}
	for _, c := range cands {
		g := ex.tt.Eq(p.idx, ex.c64(c))
		for k, cell := range cells {
			at := p.base + c*p.stride + k
			old, ok := o.get(at).(*Term)
			if !ok {
				unsupported("guarded store over a non-term cell")
			}
			o.set(at, ex.tt.Ite(g, cell.(*Term), old))
		}
	}
}

func (ex *Executor) makeSlice(st *State, elem types.Type, ln, cp int, label string) SliceV {
	id := ex.newArray(st, elem, cp, label)
	return SliceV{obj: id, stride: ex.lay.leaves(elem), off: ex.c64(0), len: ex.c64(ln), cap: ex.c64(cp)}
}

func (ex *Executor) indexAddr(st *State, fr *Frame, x *ssa.IndexAddr) {
	tt := ex.tt
	i := ex.to64(ex.val(st, fr, x.Index), x.Index.Type())
	switch b := ex.val(st, fr, x.X).(type) {
	case SliceV:
		ex.require(st, tt.Cmp(OpUlt, i, b.len), "index out of range")
		idx := tt.Bin(OpAdd, b.off, i)
		p := Ptr{obj: b.obj, base: b.base, stride: b.stride}
		if idx.IsConst() {
			p.base += int(int64(idx.val)) * b.stride
		} else {
			p.idx = idx
		}
		ex.setReg(fr, x, p)
	case Ptr:
		if b.isNil() {
			ex.require(st, tt.False, "nil pointer dereference")
		}
		arr := x.X.Type().Underlying().(*types.Pointer).Elem().Underlying().(*types.Array)
		el := ex.lay.leaves(arr.Elem())
		ex.require(st, tt.Cmp(OpUlt, i, ex.c64(int(arr.Len()))), "index out of range")
		if b.idx != nil {
			v := ex.cint(st, b.idx)
			b.base += v * b.stride
			b.idx = nil
		}
		p := Ptr{obj: b.obj, base: b.base, stride: el}
		if i.IsConst() {
			p.base += int(int64(i.val)) * el
		} else {
			p.idx = i
		}
		ex.setReg(fr, x, p)
	default:
		unsupported("IndexAddr on %T", b)
	}
}

func (ex *Executor) sliceInstr(st *State, fr *Frame, x *ssa.Slice) {
	tt := ex.tt
	var lo, hi, mx *Term
	if x.Low != nil {
		lo = ex.to64(ex.val(st, fr, x.Low), x.Low.Type())
	} else {
		lo = ex.c64(0)
	}
	if x.High != nil {
		hi = ex.to64(ex.val(st, fr, x.High), x.High.Type())
	}
	if x.Max != nil {
		mx = ex.to64(ex.val(st, fr, x.Max), x.Max.Type())
	}
	switch b := ex.val(st, fr, x.X).(type) {
	case SliceV:
		if hi == nil {
			hi = b.len
		}
		if mx == nil {
			mx = b.cap
		} else {
			ex.require(st, tt.Cmp(OpUle, mx, b.cap), "slice bounds out of range (max)")
		}
		ex.require(st, tt.Cmp(OpUle, hi, mx), "slice bounds out of range (high)")
		ex.require(st, tt.Cmp(OpUle, lo, hi), "slice bounds out of range (low)")
		r := SliceV{obj: b.obj, base: b.base, stride: b.stride,
			off: tt.Bin(OpAdd, b.off, lo), len: tt.Bin(OpSub, hi, lo), cap: tt.Bin(OpSub, mx, lo)}
		ex.setReg(fr, x, r)
	case Ptr:
		if b.isNil() {
			ex.require(st, tt.False, "nil pointer dereference")
		}
		arr := x.X.Type().Underlying().(*types.Pointer).Elem().Underlying().(*types.Array)
		n := ex.c64(int(arr.Len()))
		if hi == nil {
			hi = n
		}
		if mx == nil {
			mx = n
		} else {
			ex.require(st, tt.Cmp(OpUle, mx, n), "slice bounds out of range (max)")
		}
		ex.require(st, tt.Cmp(OpUle, hi, mx), "slice bounds out of range (high)")
		ex.require(st, tt.Cmp(OpUle, lo, hi), "slice bounds out of range (low)")
		if b.idx != nil {
			v := ex.cint(st, b.idx)
			b.base += v * b.stride
			b.idx = nil
		}
		r := SliceV{obj: b.obj, base: b.base, stride: ex.lay.leaves(arr.Elem()),
			off: lo, len: tt.Bin(OpSub, hi, lo), cap: tt.Bin(OpSub, mx, lo)}
		ex.setReg(fr, x, r)
	case StringV:
		l := ex.cint(st, lo)
		h := len(b.s)
		if hi != nil {
			h = ex.cint(st, hi)
		}
		ex.require(st, tt.Bool(0 <= l && l <= h && h <= len(b.s)), "slice bounds out of range (string)")
		ex.setReg(fr, x, StringV{b.s[l:h]})
	default:
		unsupported("Slice on %T", b)
	}
}

// readElems reads n elements (each `stride` leaves) of a slice with concrete off.
func (ex *Executor) readElems(st *State, s SliceV, off, n int) []Value {
	o := st.obj(s.obj)
	out := make([]Value, 0, n*s.stride)
	for i := 0; i < n*s.stride; i++ {
		out = append(out, o.get(s.base+off*s.stride+i))
	}
	return out
}

func (ex *Executor) elemBytes(T types.Type) int64 {
	return ex.lay.sizes.Sizeof(T)
}

func (ex *Executor) builtinAppend(st *State, s SliceV, t Value, sliceT types.Type) Value {
	el := sliceT.Underlying().(*types.Slice).Elem()
	stride := ex.lay.leaves(el)
	var src []Value
	var n int
	switch tv := t.(type) {
	case SliceV:
		n = ex.cint(st, tv.len)
		if n > 0 {
			off := ex.cint(st, tv.off)
			src = ex.readElems(st, tv, off, n)
		}
	case StringV:
		n = len(tv.s)
		for i := 0; i < n; i++ {
			src = append(src, ex.tt.Const(8, uint64(tv.s[i])))
		}
	default:
		unsupported("append of %T", t)
	}
	if n == 0 {
		return s
	}
	ls := ex.cint(st, s.len)
	cs := ex.cint(st, s.cap)
	if ls+n <= cs {
		off := ex.cint(st, s.off)
		o := st.wobj(s.obj)
		for i, v := range src {
			o.set(s.base+(off+ls)*stride+i, v)
		}
		return SliceV{obj: s.obj, base: s.base, stride: stride, off: ex.c64(off), len: ex.c64(ls + n), cap: ex.c64(cs)}
	}
	nc := growCap(int(ex.elemBytes(el)), cs, ls+n)
	var old []Value
	if ls > 0 {
		old = ex.readElems(st, s, ex.cint(st, s.off), ls)
	}
	r := ex.makeSlice(st, el, ls+n, nc, "append")
	o := st.wobj(r.obj)
	for i, v := range old {
		o.set(i, v)
	}
	for i, v := range src {
		o.set(ls*stride+i, v)
	}
	return r
}

func (ex *Executor) builtinCopy(st *State, d SliceV, s Value) Value {
	var src []Value
	ld := ex.cint(st, d.len)
	var n int
	switch sv := s.(type) {
	case SliceV:
		n = ex.cint(st, sv.len)
		if ld < n {
			n = ld
		}
		if n > 0 {
			src = ex.readElems(st, sv, ex.cint(st, sv.off), n)
		}
	case StringV:
		n = len(sv.s)
		if ld < n {
			n = ld
		}
		for i := 0; i < n; i++ {
			src = append(src, ex.tt.Const(8, uint64(sv.s[i])))
		}
	default:
		unsupported("copy from %T", s)
	}
	if n > 0 {
		off := ex.cint(st, d.off)
		o := st.wobj(d.obj)
		for i, v := range src {
			o.set(d.base+off*d.stride+i, v)
		}
	}
	return ex.c64(n)
}

// growCap returns the capacity Go's append chooses, by asking the runtime.
func growCap(elemSize, oldCap, newLen int) int {
	switch elemSize {
	case 1:
		return growCapT[[1]byte](oldCap, newLen)
	case 2:
		return growCapT[[2]byte](oldCap, newLen)
	case 4:
		return growCapT[[4]byte](oldCap, newLen)
	case 8:
		return growCapT[[8]byte](oldCap, newLen)
	case 12:
		return growCapT[[12]byte](oldCap, newLen)
	case 16:
		return growCapT[[16]byte](oldCap, newLen)
	case 24:
		return growCapT[[24]byte](oldCap, newLen)
	case 32:
		return growCapT[[32]byte](oldCap, newLen)
	case 40:
		return growCapT[[40]byte](oldCap, newLen)
	case 48:
		return growCapT[[48]byte](oldCap, newLen)
	}
	panic(engineError{fmt.Sprintf("growCap: element size %d", elemSize)})
}

func growCapT[E any](oldCap, newLen int) int {
	if oldCap > 1<<22 || newLen > 1<<22 {
		panic(engineError{"growCap: slice too large to measure"})
	}
	s := make([]E, oldCap, oldCap)
	s = append(s, make([]E, newLen-oldCap)...)
	return cap(s)
}
