package main

// One long-lived SMT solver process (z3 -in), spoken to in SMT-LIB2.  Terms
// are emitted once as define-fun / declare-const at base level; queries use
// check-sat-assuming over the names, so nothing is ever popped.

import (
	"bufio"
	"fmt"
	"io"
	"os"
	"os/exec"
	"strconv"
	"strings"
	"time"
)

type SatResult int

const (
	Unsat SatResult = iota
	Sat
	Unknown
)

func (r SatResult) String() string { return [...]string{"unsat", "sat", "unknown"}[r] }

type Solver struct {
	tt        *TermTable
	cmd       *exec.Cmd
	in        io.WriteCloser
	out       *bufio.Reader
	emitted   []bool
	argv      []string
	timeoutMs int
	// statistics
	Queries   int
	NSat      int
	NUnsat    int
	NUnknown  int
	Time      time.Duration
	Errors    []string
	log       io.Writer // optional transcript
	nEmitted  int
	restarts  int
	ufDecl    map[string]bool
}

func NewSolver(tt *TermTable, argv []string, timeoutMs int) (*Solver, error) {
	s := &Solver{tt: tt, argv: argv, timeoutMs: timeoutMs}
	if err := s.start(); err != nil {
		return nil, err
	}
	return s, nil
}

func (s *Solver) start() error {
	if p := os.Getenv("GOSYMX_SMTLOG"); p != "" && s.log == nil {
		f, _ := os.Create(p)
		s.log = f
	}
	s.cmd = exec.Command(s.argv[0], s.argv[1:]...)
	in, err := s.cmd.StdinPipe()
	if err != nil {
		return err
	}
	out, err := s.cmd.StdoutPipe()
	if err != nil {
		return err
	}
	s.cmd.Stderr = nil
	if err := s.cmd.Start(); err != nil {
		return err
	}
	s.in = in
	s.out = bufio.NewReaderSize(out, 1<<16)
	s.emitted = nil
	s.nEmitted = 0
	s.ufDecl = nil
	s.send("(set-option :print-success false)")
	s.send("(set-option :produce-models true)")
	if strings.Contains(s.argv[0], "z3") {
		s.send(fmt.Sprintf("(set-option :timeout %d)", s.timeoutMs))
	}
	s.send("(set-logic ALL)")
	return nil
}

func (s *Solver) Close() {
	if s.cmd != nil {
		s.in.Close()
		s.cmd.Process.Kill()
		s.cmd.Wait()
		s.cmd = nil
	}
}

func (s *Solver) restart() {
	s.Close()
	s.restarts++
	if err := s.start(); err != nil {
		panic(err)
	}
}

func (s *Solver) send(line string) {
	if s.log != nil {
		fmt.Fprintln(s.log, line)
	}
	io.WriteString(s.in, line)
	io.WriteString(s.in, "\n")
}

func (s *Solver) readLine() string {
	line, err := s.out.ReadString('\n')
	if err != nil {
		return "(error \"solver died: " + err.Error() + "\")"
	}
	return strings.TrimSpace(line)
}

// emit makes sure t (and everything below it) is defined in the solver.
func (s *Solver) emit(t *Term) {
	for len(s.emitted) <= t.id {
		s.emitted = append(s.emitted, make([]bool, t.id+1024-len(s.emitted))...)
	}
	if s.emitted[t.id] || t.op == OpConst {
		return
	}
	// iterative post-order to avoid deep recursion on long chains
	type fr struct {
		t *Term
		i int
	}
	stack := []fr{{t, 0}}
	for len(stack) > 0 {
		f := &stack[len(stack)-1]
		if f.i < 3 && f.t.a[f.i] != nil {
			c := f.t.a[f.i]
			f.i++
			if c.op != OpConst {
				for len(s.emitted) <= c.id {
					s.emitted = append(s.emitted, make([]bool, c.id+1024-len(s.emitted))...)
				}
				if !s.emitted[c.id] {
					stack = append(stack, fr{c, 0})
				}
			}
			continue
		}
		if f.i < 3 && f.t.a[f.i] == nil {
			f.i = 3
			continue
		}
		x := f.t
		stack = stack[:len(stack)-1]
		if s.emitted[x.id] {
			continue
		}
		s.emitted[x.id] = true
		s.nEmitted++
		if x.op == OpUF && !s.ufDecl[x.name] {
			if s.ufDecl == nil {
				s.ufDecl = map[string]bool{}
			}
			s.ufDecl[x.name] = true
			s.send(fmt.Sprintf("(declare-fun |uf_%s| (%s) %s)", x.name, s.tt.sortOf(x.a[0]), s.tt.sortOf(x)))
		}
		if x.op == OpVar {
			s.send(fmt.Sprintf("(declare-const %s %s)", x.ref(), s.tt.sortOf(x)))
		} else {
			s.send(fmt.Sprintf("(define-fun %s () %s %s)", x.ref(), s.tt.sortOf(x), s.tt.defSMT(x)))
		}
	}
}

// Check decides satisfiability of the conjunction of conds.
func (s *Solver) Check(conds []*Term) SatResult {
	if s.nEmitted > 400000 {
		s.restart()
	}
	start := time.Now()
	var names []string
	for _, c := range conds {
		if c.IsConst() {
			if c.val == 0 {
				return Unsat
			}
			continue
		}
		s.emit(c)
		names = append(names, c.ref())
	}
	s.Queries++
	s.send("(check-sat-assuming (" + strings.Join(names, " ") + "))")
	var res SatResult
	for {
		line := s.readLine()
		if line == "" {
			continue
		}
		switch {
		case line == "sat":
			res = Sat
			s.NSat++
		case line == "unsat":
			res = Unsat
			s.NUnsat++
		case line == "unknown" || strings.HasPrefix(line, "timeout"):
			res = Unknown
			s.NUnknown++
		case strings.HasPrefix(line, "(error"):
			s.Errors = append(s.Errors, line)
			res = Unknown
			s.NUnknown++
			if strings.Contains(line, "solver died") {
				s.restart()
			}
		default:
			continue
		}
		break
	}
	s.Time += time.Since(start)
	return res
}

// GetModel must directly follow a Check that returned Sat.
func (s *Solver) GetModel() *Model {
	m := NewModel()
	var vars []*Term
	for _, v := range s.tt.vars {
		if v.id < len(s.emitted) && s.emitted[v.id] {
			vars = append(vars, v)
		}
	}
	for _, v := range s.tt.ufApps {
		if v.id < len(s.emitted) && s.emitted[v.id] {
			vars = append(vars, v)
			m.ufs = append(m.ufs, v)
		}
	}
	if len(vars) == 0 {
		return m
	}
	const chunk = 200
	for i := 0; i < len(vars); i += chunk {
		j := i + chunk
		if j > len(vars) {
			j = len(vars)
		}
		var sb strings.Builder
		sb.WriteString("(get-value (")
		for _, v := range vars[i:j] {
			sb.WriteString(v.ref())
			sb.WriteString(" ")
		}
		sb.WriteString("))")
		s.send(sb.String())
		txt := s.readSexp()
		s.parseValues(txt, vars[i:j], m)
	}
	return m
}

// readSexp reads one balanced s-expression (possibly spanning lines).
func (s *Solver) readSexp() string {
	var sb strings.Builder
	depth := 0
	started := false
	inBar := false
	for {
		line, err := s.out.ReadString('\n')
		if err != nil {
			return sb.String()
		}
		for _, c := range line {
			if c == '|' {
				inBar = !inBar
			}
			if inBar {
				continue
			}
			if c == '(' {
				depth++
				started = true
			} else if c == ')' {
				depth--
			}
		}
		sb.WriteString(line)
		if started && depth <= 0 {
			return sb.String()
		}
	}
}

func (s *Solver) parseValues(txt string, vars []*Term, m *Model) {
	if strings.Contains(txt, "(error") {
		s.Errors = append(s.Errors, strings.TrimSpace(txt))
		return
	}
	// entries look like (|name| #x0f) or (|name| #b101) or (|name| true) or (_ bvN w)
	rest := txt
	for _, v := range vars {
		key := v.ref()
		i := strings.Index(rest, "("+key+" ")
		if i < 0 {
			// z3 may print simple symbols without bars
			key = strings.Trim(key, "|")
			i = strings.Index(rest, "("+key+" ")
			if i < 0 {
				continue
			}
		}
		i++
		rest = rest[i+len(key)+1:]
		rest = strings.TrimLeft(rest, " \n")
		var val uint64
		switch {
		case strings.HasPrefix(rest, "#x"):
			end := strings.IndexAny(rest, ") \n")
			val, _ = strconv.ParseUint(rest[2:end], 16, 64)
		case strings.HasPrefix(rest, "#b"):
			end := strings.IndexAny(rest, ") \n")
			val, _ = strconv.ParseUint(rest[2:end], 2, 64)
		case strings.HasPrefix(rest, "true"):
			val = 1
		case strings.HasPrefix(rest, "false"):
			val = 0
		case strings.HasPrefix(rest, "(_ bv"):
			end := strings.IndexAny(rest[5:], " ")
			val, _ = strconv.ParseUint(rest[5:5+end], 10, 64)
		}
		m.vals[v.id] = val
	}
}
