package main

// Calls: static, closure, invoke, builtins, and the intrinsics table.

import (
	"fmt"
	"go/types"
	"sort"
	"strings"

	"golang.org/x/tools/go/ssa"
)

// call executes a call instruction. It returns true if a frame was pushed.
func (ex *Executor) call(st *State, fr *Frame, x *ssa.Call) bool {
	cc := x.Common()
	var args []Value
	var fn *ssa.Function
	var bindings []Value
	retReg := fr.info.idx[x]

	if cc.IsInvoke() {
		recv := ex.val(st, fr, cc.Value).(IfaceV)
		if recv.typ == nil {
			ex.require(st, ex.tt.False, "nil interface method call")
		}
		if named, ok := recv.typ.(*types.Named); ok && strings.HasPrefix(named.Obj().Name(), "extError<") || isOpaqueErr(recv.typ) {
			if cc.Method.Name() == "Error" {
				ex.setReg(fr, x, StringV{"opaque error"})
				return false
			}
		}
		if rv, ok := recv.val.(*ReflectValue); ok {
			args = append(args, rv)
			for _, a := range cc.Args {
				args = append(args, ex.val(st, fr, a))
			}
			ex.setReg(fr, x, ex.reflectMethod(st, "(reflect.Value)."+cc.Method.Name(), args))
			return false
		}
		if rt, ok := recv.val.(*ReflectType); ok {
			args = append(args, rt)
			for _, a := range cc.Args {
				args = append(args, ex.val(st, fr, a))
			}
			ex.setReg(fr, x, ex.reflectMethod(st, "(reflect.Type)."+cc.Method.Name(), args))
			return false
		}
		fn = ex.prog.LookupMethod(recv.typ, cc.Method.Pkg(), cc.Method.Name())
		if fn == nil {
			unsupported("no method %s on %s", cc.Method.Name(), recv.typ)
		}
		args = append(args, recv.val)
	} else {
		switch c := cc.Value.(type) {
		case *ssa.Builtin:
			for _, a := range cc.Args {
				args = append(args, ex.val(st, fr, a))
			}
			ex.setReg(fr, x, ex.builtin(st, fr, c, cc, args))
			return false
		case *ssa.Function:
			fn = c
		default:
			fv := ex.val(st, fr, cc.Value).(FuncV)
			if fv.fn == nil {
				ex.require(st, ex.tt.False, "call of nil func")
			}
			fn = fv.fn
			bindings = fv.bindings
		}
	}
	for _, a := range cc.Args {
		args = append(args, ex.val(st, fr, a))
	}
	name := fn.String()
	if rep, ok := ex.opt.Stubs[name]; ok {
		r := ex.lookupFunc(rep)
		if r == nil {
			unsupported("stub %s for %s not found", rep, name)
		}
		fn = r
		name = fn.String()
	}
	if fn.Blocks == nil && fn.Name() == "init" {
		return false // init of a package without bodies
	}
	if name == "(*sync.Pool).Get" || name == "(*sync.Pool).Put" {
		p := args[0].(Ptr)
		if p.isNil() || p.idx != nil {
			unsupported("sync.Pool through a nil or symbolic pointer")
		}
		key := [2]int{p.obj, p.base}
		if name == "(*sync.Pool).Put" {
			np := make(map[[2]int][]Value, len(st.pools)+1)
			for k, v := range st.pools {
				np[k] = v
			}
			np[key] = append(append([]Value(nil), np[key]...), args[1])
			st.pools = np
			ex.setReg(fr, x, nil)
			return false
		}
		// Get: the model hands back the most recently Put item (what a single goroutine usually sees);
		// an empty pool calls New
		if items := st.pools[key]; len(items) > 0 {
			np := make(map[[2]int][]Value, len(st.pools))
			for k, v := range st.pools {
				np[k] = v
			}
			np[key] = items[:len(items)-1]
			st.pools = np
			ex.setReg(fr, x, items[len(items)-1])
			return false
		}
		pt := cc.Args[0].Type().Underlying().(*types.Pointer).Elem()
		ps, ok := pt.Underlying().(*types.Struct)
		if !ok {
			unsupported("sync.Pool layout")
		}
		fi := fieldIndex(ps, "New")
		np := p
		np.base += ex.lay.of(pt).fields[fi]
		nf, _ := ex.load(st, np, ps.Field(fi).Type()).(FuncV)
		if nf.fn == nil {
			ex.setReg(fr, x, IfaceV{})
			return false
		}
		fr.ip++
		ex.pushFrame(st, nf.fn, nil, nf.bindings, retReg)
		return true
	}
	if strings.HasPrefix(name, "encoding/json.") {
		// types with their own (Un)MarshalJSON are dispatched to it, as encoding/json does
		if m, margs := ex.jsonDispatch(name, args); m != nil {
			fr.ip++
			ex.pushFrame(st, m, margs, nil, retReg)
			return true
		}
	}
	if fn.Blocks == nil || ex.isIntrinsic(name) {
		res, handled := ex.intrinsic(st, fr, name, fn, args, cc)
		if handled {
			ex.setReg(fr, x, res)
			return false
		}
		unsupported("call of external function %s", name)
	}
	fr.ip++ // resume after the call
	ex.pushFrame(st, fn, args, bindings, retReg)
	return true
}

// callDeferred runs one deferred call; true if a frame was pushed. The ip of the
// frame stays on the RunDefers instruction, which is re-executed afterwards.
func (ex *Executor) callDeferred(st *State, fr *Frame, d *ssa.Defer, vals []Value) bool {
	fv, ok := vals[0].(FuncV)
	if !ok || fv.fn == nil {
		ex.require(st, ex.tt.False, "deferred call of a nil func")
	}
	fn := fv.fn
	args := vals[1:]
	name := fn.String()
	if name == "(*sync.Pool).Put" {
		p := args[0].(Ptr)
		key := [2]int{p.obj, p.base}
		np := make(map[[2]int][]Value, len(st.pools)+1)
		for k, v := range st.pools {
			np[k] = v
		}
		np[key] = append(append([]Value(nil), np[key]...), args[1])
		st.pools = np
		return false
	}
	if fn.Blocks == nil || ex.isIntrinsic(name) {
		_, handled := ex.intrinsic(st, fr, name, fn, args, d.Common())
		if !handled {
			unsupported("deferred call of external function %s", name)
		}
		return false
	}
	ex.pushFrame(st, fn, args, fv.bindings, -1)
	return true
}

func (ex *Executor) lookupFunc(name string) *ssa.Function {
	for _, p := range ex.pkgs {
		if f := p.Func(name); f != nil {
			return f
		}
	}
	return nil
}

var opaqueErrType = types.NewNamed(types.NewTypeName(0, nil, "opaqueError", nil), types.NewStruct(nil, nil), nil)

func isOpaqueErr(T types.Type) bool { return T == opaqueErrType }

func (ex *Executor) newOpaqueError(st *State, msg string) IfaceV {
	id := ex.newObject(st, types.Typ[types.String], "error "+msg)
	st.wobj(id).set(0, StringV{msg})
	return IfaceV{typ: opaqueErrType, val: Ptr{obj: id, stride: 1, count: 1}}
}

func (ex *Executor) builtin(st *State, fr *Frame, b *ssa.Builtin, cc *ssa.CallCommon, args []Value) Value {
	tt := ex.tt
	switch b.Name() {
	case "len":
		switch a := args[0].(type) {
		case SliceV:
			return a.len
		case StringV:
			return ex.c64(len(a.s))
		case Ptr: // pointer to array
			arr := cc.Args[0].Type().Underlying().(*types.Pointer).Elem().Underlying().(*types.Array)
			return ex.c64(int(arr.Len()))
		case *AggV:
			return ex.c64(len(a.elems))
		}
	case "cap":
		switch a := args[0].(type) {
		case SliceV:
			return a.cap
		case Ptr:
			arr := cc.Args[0].Type().Underlying().(*types.Pointer).Elem().Underlying().(*types.Array)
			return ex.c64(int(arr.Len()))
		}
	case "append":
		return ex.builtinAppend(st, args[0].(SliceV), args[1], cc.Args[0].Type())
	case "copy":
		return ex.builtinCopy(st, args[0].(SliceV), args[1])
	case "min", "max":
		T := cc.Args[0].Type()
		_, signed, _ := intInfo(T)
		r := args[0].(*Term)
		for _, a := range args[1:] {
			y := a.(*Term)
			lt := OpUlt
			if signed {
				lt = OpSlt
			}
			var c *Term
			if b.Name() == "min" {
				c = tt.Cmp(lt, y, r)
			} else {
				c = tt.Cmp(lt, r, y)
			}
			r = tt.Ite(c, y, r)
		}
		return r
	case "print", "println":
		return nil
	case "ssa:wrapnilchk":
		if p, ok := args[0].(Ptr); ok && p.isNil() {
			ex.require(st, tt.False, "value method called through a nil pointer")
		}
		return args[0]
	case "panic":
		ex.recordViolation(st, "panic: explicit panic", st.model)
		ex.PathsPanic++
		panic(pathEnd{})
	}
	unsupported("builtin %s", b.Name())
	return nil
}

func (ex *Executor) isIntrinsic(name string) bool {
	if strings.Contains(name, ".verif") {
		return true
	}
	for _, p := range []string{"math/bits.", "fmt.", "errors.", "bytes.Compare", "golang.org/x/exp/slices.Sort", "slices.Sort",
		"reflect.", "(reflect.", "encoding/json.", "sort.Slice", "(*strings.Builder)", "(*testing."} {
		if strings.HasPrefix(name, p) {
			return true
		}
	}
	return false
}

func lastSeg(name string) string {
	if i := strings.LastIndex(name, "."); i >= 0 {
		return name[i+1:]
	}
	return name
}

func (ex *Executor) strArg(v Value) string {
	s, ok := v.(StringV)
	if !ok {
		unsupported("expected a concrete string argument, got %T", v)
	}
	return s.s
}

// intrinsic implements body-less functions.
func (ex *Executor) intrinsic(st *State, fr *Frame, name string, fn *ssa.Function, args []Value, cc *ssa.CallCommon) (Value, bool) {
	tt := ex.tt
	if strings.Contains(name, ".verif") {
		return ex.verifIntrinsic(st, fr, lastSeg(name), args), true
	}
	switch name {
	case "math/bits.TrailingZeros64":
		return ex.tz(args[0].(*Term), 64), true
	case "math/bits.TrailingZeros32":
		return ex.tz(args[0].(*Term), 32), true
	case "math/bits.TrailingZeros16":
		return ex.tz(args[0].(*Term), 16), true
	case "math/bits.TrailingZeros8":
		return ex.tz(args[0].(*Term), 8), true
	case "math/bits.LeadingZeros64":
		return ex.lz(args[0].(*Term), 64), true
	case "math/bits.LeadingZeros32":
		return ex.lz(args[0].(*Term), 32), true
	case "math/bits.Len32":
		return tt.Bin(OpSub, ex.c64(32), ex.lz(args[0].(*Term), 32)), true
	case "math/bits.Len64":
		return tt.Bin(OpSub, ex.c64(64), ex.lz(args[0].(*Term), 64)), true
	case "math/bits.Len":
		return tt.Bin(OpSub, ex.c64(64), ex.lz(args[0].(*Term), 64)), true
	case "math/bits.OnesCount64":
		x := args[0].(*Term)
		r := ex.c64(0)
		for i := 0; i < 64; i++ {
			bit := tt.Bin(OpAnd, tt.Bin(OpLShr, x, tt.Const(64, uint64(i))), tt.Const(64, 1))
			r = tt.Bin(OpAdd, r, bit)
		}
		return r, true
	case "fmt.Errorf":
		return ex.newOpaqueError(st, "fmt.Errorf: "+ex.fmtHead(args)), true
	case "errors.New":
		return ex.newOpaqueError(st, ex.strArg(args[0])), true
	case "fmt.Sprintf", "fmt.Sprint", "fmt.Sprintln":
		return StringV{"<formatted>"}, true
	case "fmt.Println", "fmt.Printf", "fmt.Print", "fmt.Fprint", "fmt.Fprintf", "fmt.Fprintln":
		return &AggV{elems: []Value{ex.c64(0), IfaceV{}}}, true
	case "bytes.Compare":
		return ex.bytesCompare(st, args[0].(SliceV), args[1].(SliceV)), true
	case "bytes.Equal":
		c := ex.bytesCompare(st, args[0].(SliceV), args[1].(SliceV))
		return tt.Eq(c, ex.c64(0)), true
	}
	if strings.HasPrefix(name, "golang.org/x/exp/slices.Sort[") || strings.HasPrefix(name, "slices.Sort[") {
		ex.sortSlice(st, args[0].(SliceV), cc.Args[0].Type())
		return nil, true
	}
	if strings.HasPrefix(name, "reflect.") || strings.HasPrefix(name, "(reflect.") || strings.HasPrefix(name, "(*reflect.") {
		return ex.reflectCall(st, name, args), true
	}
	if strings.HasPrefix(name, "encoding/json.") {
		return ex.jsonCall(st, fr, name, args), true
	}
	return nil, false
}

func (ex *Executor) fmtHead(args []Value) string {
	if len(args) > 0 {
		if s, ok := args[0].(StringV); ok {
			return s.s
		}
	}
	return ""
}

// tz: trailing zeros of the low w bits of x (x has width w), as a 64-bit int term.
func (ex *Executor) tz(x *Term, w uint8) *Term {
	tt := ex.tt
	if x.IsConst() {
		n := 0
		for n < int(w) && (x.val>>uint(n))&1 == 0 {
			n++
		}
		return ex.c64(n)
	}
	if w == 1 {
		return tt.Ite(tt.Eq(x, tt.Const(1, 1)), ex.c64(0), ex.c64(1))
	}
	h := w / 2
	lo := tt.Trunc(x, h)
	hi := tt.Trunc(tt.Bin(OpLShr, x, tt.Const(w, uint64(h))), h)
	return tt.Ite(tt.Eq(lo, tt.Const(h, 0)), tt.Bin(OpAdd, ex.tz(hi, h), ex.c64(int(h))), ex.tz(lo, h))
}

func (ex *Executor) lz(x *Term, w uint8) *Term {
	tt := ex.tt
	if x.IsConst() {
		n := 0
		for n < int(w) && (x.val>>uint(int(w)-1-n))&1 == 0 {
			n++
		}
		return ex.c64(n)
	}
	if w == 1 {
		return tt.Ite(tt.Eq(x, tt.Const(1, 1)), ex.c64(0), ex.c64(1))
	}
	h := w / 2
	lo := tt.Trunc(x, h)
	hi := tt.Trunc(tt.Bin(OpLShr, x, tt.Const(w, uint64(h))), h)
	return tt.Ite(tt.Eq(hi, tt.Const(h, 0)), tt.Bin(OpAdd, ex.lz(lo, h), ex.c64(int(h))), ex.lz(hi, h))
}

// loadElem reads element i (single-leaf term) of a slice, allowing a symbolic offset.
func (ex *Executor) loadElem(st *State, s SliceV, i int, T types.Type) Value {
	idx := ex.tt.Bin(OpAdd, s.off, ex.c64(i))
	p := Ptr{obj: s.obj, base: s.base, stride: s.stride}
	if idx.IsConst() {
		p.base += int(int64(idx.val)) * s.stride
	} else {
		p.idx = idx
	}
	return ex.load(st, p, T)
}

func (ex *Executor) bytesCompare(st *State, a, b SliceV) *Term {
	tt := ex.tt
	la, lb := ex.cint(st, a.len), ex.cint(st, b.len)
	n := la
	if lb < n {
		n = lb
	}
	var res *Term
	switch {
	case la < lb:
		res = ex.c64(-1)
	case la > lb:
		res = ex.c64(1)
	default:
		res = ex.c64(0)
	}
	u8 := types.Typ[types.Uint8]
	for i := n - 1; i >= 0; i-- {
		x := ex.loadElem(st, a, i, u8).(*Term)
		y := ex.loadElem(st, b, i, u8).(*Term)
		res = tt.Ite(tt.Eq(x, y), res, tt.Ite(tt.Cmp(OpUlt, x, y), ex.c64(-1), ex.c64(1)))
	}
	return res
}

// sortSlice models slices.Sort on an integer slice.
func (ex *Executor) sortSlice(st *State, s SliceV, T types.Type) {
	tt := ex.tt
	el := T.Underlying().(*types.Slice).Elem()
	_, signed, ok := intInfo(el)
	if !ok {
		unsupported("slices.Sort on %s", T)
	}
	n := ex.cint(st, s.len)
	if n < 2 {
		return
	}
	off := ex.cint(st, s.off)
	vals := ex.readElems(st, s, off, n)
	allConst := true
	ts := make([]*Term, n)
	for i, v := range vals {
		ts[i] = v.(*Term)
		if !ts[i].IsConst() {
			allConst = false
		}
	}
	if allConst {
		sort.Slice(ts, func(i, j int) bool {
			if signed {
				return sext64(ts[i].val, ts[i].w) < sext64(ts[j].val, ts[j].w)
			}
			return ts[i].val < ts[j].val
		})
	} else {
		lt := OpUlt
		if signed {
			lt = OpSlt
		}
		for i := 0; i < n; i++ {
			for j := 0; j+1 < n-i; j++ {
				c := tt.Cmp(lt, ts[j+1], ts[j])
				a, b := ts[j], ts[j+1]
				ts[j] = tt.Ite(c, b, a)
				ts[j+1] = tt.Ite(c, a, b)
			}
		}
	}
	o := st.wobj(s.obj)
	for i, t := range ts {
		o.set(s.base+(off+i)*s.stride, t)
	}
}

// ---------- harness intrinsics ----------

func (ex *Executor) freshVar(w uint8, name string) *Term {
	return ex.tt.Var(w, name)
}

func (ex *Executor) verifIntrinsic(st *State, fr *Frame, name string, args []Value) Value {
	tt := ex.tt
	switch name {
	case "verifU8":
		return ex.freshVar(8, ex.strArg(args[0]))
	case "verifU16":
		return ex.freshVar(16, ex.strArg(args[0]))
	case "verifU32":
		return ex.freshVar(32, ex.strArg(args[0]))
	case "verifU64":
		return ex.freshVar(64, ex.strArg(args[0]))
	case "verifInt", "verifInt64":
		return ex.freshVar(64, ex.strArg(args[0]))
	case "verifBool":
		return ex.freshVar(0, ex.strArg(args[0]))
	case "verifName":
		return StringV{fmt.Sprintf("%s[%d]", ex.strArg(args[0]), ex.cint(st, args[1].(*Term)))}
	case "verifAssume":
		c := args[0].(*Term)
		if !(c.IsConst() && c.val == 1) {
			ex.flushAsserts(st)
		}
		ex.assume(st, c)
		return nil
	case "verifAssert":
		ex.assert(st, args[0].(*Term), ex.strArg(args[1]))
		return nil
	case "verifAssertNow":
		ex.assert(st, args[0].(*Term), ex.strArg(args[1]))
		ex.flushAsserts(st)
		return nil
	case "verifFail":
		ex.assert(st, tt.False, ex.strArg(args[0]))
		return nil
	case "verifReach":
		ex.Reach[ex.strArg(args[0])]++
		return nil
	case "verifAnd":
		return tt.And(args[0].(*Term), args[1].(*Term))
	case "verifOr":
		return tt.Or(args[0].(*Term), args[1].(*Term))
	case "verifImplies":
		return tt.Or(tt.Not(args[0].(*Term)), args[1].(*Term))
	case "verifB2I":
		return tt.B2BV(args[0].(*Term), 64)
	case "verifIteInt":
		return tt.Ite(args[0].(*Term), args[1].(*Term), args[2].(*Term))
	case "verifIteU8":
		return tt.Ite(args[0].(*Term), args[1].(*Term), args[2].(*Term))
	case "verifChoose":
		nm := ex.strArg(args[0])
		n := ex.cint(st, args[1].(*Term))
		v := ex.freshVar(64, nm)
		ex.assume(st, tt.Cmp(OpUlt, v, ex.c64(n)))
		if pv, ok := ex.opt.Params[nm]; ok { // job split: this job explores one value only
			ex.assume(st, tt.Eq(v, ex.c64(int(pv))))
		}
		c := ex.cint(st, v)
		st.choices = append(st.choices, fmt.Sprintf("%s=%d", nm, c))
		// children forked inside cint do not carry the choice text; they re-run this
		// intrinsic (same ip) and append their own.
		return ex.c64(c)
	case "verifConc":
		return ex.c64(ex.cint(st, args[0].(*Term)))
	case "verifIsConc":
		return tt.Bool(args[0].(*Term).IsConst())
	case "verifParam":
		nm := ex.strArg(args[0])
		v, ok := ex.opt.Params[nm]
		if !ok {
			unsupported("missing job parameter %q", nm)
		}
		return ex.c64(int(v))
	case "verifParamOr":
		nm := ex.strArg(args[0])
		if v, ok := ex.opt.Params[nm]; ok {
			return ex.c64(int(v))
		}
		return args[1]
	case "verifBytes":
		nm := ex.strArg(args[0])
		n := ex.cint(st, args[1].(*Term))
		return ex.symBytes(st, nm, n, n)
	case "verifBytesCap":
		nm := ex.strArg(args[0])
		n := ex.cint(st, args[1].(*Term))
		c := ex.cint(st, args[2].(*Term))
		return ex.symBytes(st, nm, n, c)
	case "verifNote":
		st.choices = append(st.choices, ex.strArg(args[0]))
		return nil
	}
	unsupported("unknown harness intrinsic %s", name)
	return nil
}

func (ex *Executor) symBytes(st *State, nm string, n, c int) Value {
	if c < n {
		c = n
	}
	sv := ex.makeSlice(st, types.Typ[types.Uint8], n, c, nm)
	o := st.wobj(sv.obj)
	for i := 0; i < c; i++ {
		o.set(i, ex.freshVar(8, fmt.Sprintf("%s[%d]", nm, i)))
	}
	return sv
}

func (ex *Executor) assert(st *State, c *Term, label string) {
	ex.Asserts++
	c = ex.simp(st, c)
	if c.IsConst() && c.val == 1 {
		ex.AssertsProved++
		return
	}
	if st.model.Eval(c) == 0 {
		if rm, real := ex.realModel(st, ex.tt.Not(c), st.model); real {
			ex.recordViolation(st, label, rm)
			// continue with the assertion assumed, if possible
			ex.flushAsserts(st)
			f, m := ex.feasible(st, c)
			if !f {
				panic(pathEnd{})
			}
			st.model = m
			st.addPC(c)
			return
		}
	}
	// defer the query: assertions are discharged in one batch (flushAsserts)
	st.pending_ = append(st.pending_, pendingAssert{c, label, ex.where(st), ex.stack(st)})
}

// flushAsserts decides all deferred assertions of the path with one query.
// Later path constraints only narrow the models, so a model of pc ∧ ¬A_i found
// here is also a model at the point where A_i was stated (no false alarm); the
// models cut away by a branch are covered by the sibling path, which inherited
// the same deferred assertions. Assumptions flush first (they are not retroactive).
func (ex *Executor) flushAsserts(st *State) {
	for len(st.pending_) > 0 {
		conj := ex.tt.True
		for _, p := range st.pending_ {
			conj = ex.tt.And(conj, p.c)
		}
		if conj.IsConst() && conj.val == 1 {
			ex.AssertsProved += len(st.pending_)
			st.pending_ = nil
			return
		}
		q := append(append([]*Term(nil), st.pc...), ex.tt.Not(conj))
		res := ex.check("assert", q)
		if res == Sat && ex.opt.UFMul && len(ex.tt.ufApps) > 0 {
			// decide the batch again under the real multiplication
			res = ex.check("assert-refined", append(q, ex.ufAxioms()...))
		}
		switch res {
		case Unsat:
			ex.AssertsProved += len(st.pending_)
			for _, p := range st.pending_ {
				st.addPC(p.c)
			}
			st.pending_ = nil
			return
		case Sat:
			m := ex.sol.GetModel()
			idx := -1
			for i, p := range st.pending_ {
				if m.Eval(p.c) == 0 {
					idx = i
					break
				}
			}
			if idx < 0 {
				ex.inconclusive("model of a failed assertion batch satisfies every assertion")
				st.pending_ = nil
				return
			}
			p := st.pending_[idx]
			ex.recordViolationAt(st, p.label, p.where, p.stack, m)
			// assume it and look at the rest
			st.pending_ = append(st.pending_[:idx:idx], st.pending_[idx+1:]...)
			f, m2 := ex.feasible(st, p.c)
			if !f {
				st.pending_ = nil
				panic(pathEnd{})
			}
			st.model = m2
			st.addPC(p.c)
			if len(ex.Violations) >= ex.opt.MaxViolations {
				st.pending_ = nil
				return
			}
		default:
			ex.inconclusive("solver unknown on an assertion batch ending at %s", ex.where(st))
			st.pending_ = nil
			return
		}
	}
}
