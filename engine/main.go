package main

import (
	"encoding/json"
	"flag"
	"fmt"
	"go/token"
	"os"
	"path/filepath"
	"runtime/pprof"
	"sort"
	"strings"
	"sync"
	"time"

	"golang.org/x/tools/go/packages"
	"golang.org/x/tools/go/ssa"
	"golang.org/x/tools/go/ssa/ssautil"
)

type Job struct {
	ID        string            `json:"id"`
	Entry     string            `json:"entry"`
	Params    map[string]int64  `json:"params,omitempty"`
	Stubs     map[string]string `json:"stubs,omitempty"`
	MaxSteps  int               `json:"max_steps,omitempty"`
	MaxPaths  int               `json:"max_paths,omitempty"`
	MaxEnum   int               `json:"max_enum,omitempty"`
	LoopCap   int               `json:"loop_cap,omitempty"`
	TimeoutMs int               `json:"timeout_ms,omitempty"`
	MaxViol   int               `json:"max_violations,omitempty"`
	MaxSec    int               `json:"max_seconds,omitempty"`
	UFMul     bool              `json:"uf_mul,omitempty"`
	NonTerm   bool              `json:"nonterm,omitempty"`
	NoPhiConc bool              `json:"no_phi_conc,omitempty"`
	Solver    []string          `json:"solver,omitempty"`
}

type JobResult struct {
	Job            Job                      `json:"job"`
	Verdict        string                   `json:"verdict"` // holds | violated | inconclusive
	Paths          int                      `json:"paths"`
	PathsPanic     int                      `json:"paths_panic"`
	Steps          int64                    `json:"steps"`
	Forks          int                      `json:"forks"`
	Asserts        int                      `json:"asserts"`
	AssertsProved  int                      `json:"asserts_proved"`
	Queries        int                      `json:"queries"`
	QSat           int                      `json:"queries_sat"`
	QUnsat         int                      `json:"queries_unsat"`
	QUnknown       int                      `json:"queries_unknown"`
	SolverSeconds  float64                  `json:"solver_s"`
	WallSeconds    float64                  `json:"wall_s"`
	Terms          int                      `json:"terms"`
	Vars           int                      `json:"vars"`
	Violations     []Violation              `json:"violations"`
	Inconclusive   []string                 `json:"inconclusive"`
	Reach          map[string]int           `json:"reach"`
	Functions      []string                 `json:"functions"`
	BlocksCovered  int                      `json:"blocks_covered"`
	BlocksTotal    int                      `json:"blocks_total"`
	Unreached      []string                 `json:"unreached_blocks,omitempty"`
	Samples        []map[string]interface{} `json:"samples"`
	SolverErrors   []string                 `json:"solver_errors,omitempty"`
	QKinds         map[string]int           `json:"query_kinds"`
}

func main() {
	repo := flag.String("repo", "/repo", "repository root")
	hdir := flag.String("harness", "/verif/harness", "harness root (lz/, suffix/)")
	jobsFile := flag.String("jobs", "", "JSON file with jobs")
	out := flag.String("out", "", "result JSON")
	workers := flag.Int("workers", 8, "parallel jobs")
	verbose := flag.Bool("v", false, "verbose")
	cpuprof := flag.String("cpuprofile", "", "write cpu profile")
	flag.Parse()

	if *cpuprof != "" {
		f, _ := os.Create(*cpuprof)
		pprof.StartCPUProfile(f)
		defer pprof.StopCPUProfile()
	}
	var jobs []Job
	data, err := os.ReadFile(*jobsFile)
	if err != nil {
		fatal(err)
	}
	if err := json.Unmarshal(data, &jobs); err != nil {
		fatal(err)
	}

	prog, pkgs, err := load(*repo, *hdir)
	if err != nil {
		fatal(err)
	}

	results := make([]*JobResult, len(jobs))
	var wg sync.WaitGroup
	sem := make(chan struct{}, *workers)
	var mu sync.Mutex
	for i := range jobs {
		wg.Add(1)
		go func(i int) {
			defer wg.Done()
			sem <- struct{}{}
			defer func() { <-sem }()
			r := runJob(prog, pkgs, jobs[i], *verbose)
			mu.Lock()
			results[i] = r
			if *verbose {
				fmt.Fprintf(os.Stderr, "[%s] %s paths=%d queries=%d viol=%d inconcl=%d wall=%.1fs\n",
					r.Job.ID, r.Verdict, r.Paths, r.Queries, len(r.Violations), len(r.Inconclusive), r.WallSeconds)
			}
			mu.Unlock()
		}(i)
	}
	wg.Wait()
	if debugBranch {
		type kv struct {
			k string
			v int
		}
		var l []kv
		for k, v := range debugCount {
			l = append(l, kv{k, v})
		}
		sort.Slice(l, func(i, j int) bool { return l[i].v > l[j].v })
		for i, e := range l {
			if i > 40 {
				break
			}
			fmt.Fprintf(os.Stderr, "%6d %s\n", e.v, e.k)
		}
	}
	enc, _ := json.MarshalIndent(results, "", " ")
	if *out == "" {
		os.Stdout.Write(enc)
	} else if err := os.WriteFile(*out, enc, 0o644); err != nil {
		fatal(err)
	}
}

func fatal(err error) {
	fmt.Fprintln(os.Stderr, "gosymx:", err)
	os.Exit(3)
}

var buildMu sync.Mutex

func load(repo, hdir string) (*ssa.Program, map[string]*ssa.Package, error) {
	overlay := map[string][]byte{}
	for _, sub := range []string{"lz", "suffix"} {
		files, _ := filepath.Glob(filepath.Join(hdir, sub, "*.go"))
		for _, f := range files {
			if strings.HasSuffix(f, "_test.go") {
				continue
			}
			b, err := os.ReadFile(f)
			if err != nil {
				return nil, nil, err
			}
			dst := repo
			if sub == "suffix" {
				dst = filepath.Join(repo, "suffix")
			}
			overlay[filepath.Join(dst, "zz_verif_"+filepath.Base(f))] = b
		}
	}
	cfg := &packages.Config{
		Mode: packages.NeedName | packages.NeedFiles | packages.NeedCompiledGoFiles | packages.NeedImports |
			packages.NeedDeps | packages.NeedTypes | packages.NeedTypesSizes | packages.NeedSyntax | packages.NeedTypesInfo,
		Dir:        repo,
		Overlay:    overlay,
		BuildFlags: []string{"-tags=verif"},
		Env:        append(os.Environ(), "GOFLAGS=-mod=mod", "GOPROXY=off", "GOSUMDB=off", "GOTOOLCHAIN=local"),
		Fset:       token.NewFileSet(),
	}
	initial, err := packages.Load(cfg, ".", "./suffix")
	if err != nil {
		return nil, nil, err
	}
	nerr := 0
	packages.Visit(initial, nil, func(p *packages.Package) {
		for _, e := range p.Errors {
			if nerr < 20 {
				fmt.Fprintln(os.Stderr, "load:", e)
			}
			nerr++
		}
	})
	if nerr > 0 {
		return nil, nil, fmt.Errorf("%d package errors", nerr)
	}
	prog, spkgs := ssautil.AllPackages(initial, ssa.InstantiateGenerics)
	pkgs := map[string]*ssa.Package{}
	_ = spkgs
	for _, p := range prog.AllPackages() {
		path := p.Pkg.Path()
		if path == "github.com/ulikunitz/lz" || path == "github.com/ulikunitz/lz/suffix" {
			p.Build()
			pkgs[path] = p
		}
	}
	if len(pkgs) != 2 {
		return nil, nil, fmt.Errorf("lz packages not found in program")
	}
	return prog, pkgs, nil
}

func runJob(prog *ssa.Program, pkgs map[string]*ssa.Package, job Job, verbose bool) *JobResult {
	start := time.Now()
	res := &JobResult{Job: job}
	opt := Options{MaxSteps: job.MaxSteps, MaxPaths: job.MaxPaths, MaxEnum: job.MaxEnum, MaxViolations: job.MaxViol,
		LoopCap: job.LoopCap, Stubs: job.Stubs, Params: job.Params, Verbose: verbose}
	opt.UFMul = job.UFMul
	opt.NonTerm = job.NonTerm
	opt.NoPhiConc = job.NoPhiConc
	if job.MaxSec > 0 {
		opt.Deadline = start.Add(time.Duration(job.MaxSec) * time.Second)
	}
	if opt.MaxSteps == 0 {
		opt.MaxSteps = 2000000
	}
	if opt.MaxEnum == 0 {
		opt.MaxEnum = 64
	}
	if opt.MaxViolations == 0 {
		opt.MaxViolations = 3
	}
	tmo := job.TimeoutMs
	if tmo == 0 {
		tmo = 60000
	}
	solver := job.Solver
	if len(solver) == 0 {
		solver = []string{"z3-new", "-in"}
	}
	ex, err := NewExecutor(prog, pkgs, opt, solver, tmo)
	if err != nil {
		res.Verdict = "inconclusive"
		res.Inconclusive = []string{"cannot start solver: " + err.Error()}
		return res
	}
	defer ex.sol.Close()
	func() {
		defer func() {
			if r := recover(); r != nil {
				if ee, ok := r.(engineError); ok {
					ex.inconclusive("engine: %s", ee.msg)
					return
				}
				panic(r)
			}
		}()
		var ps []*ssa.Package
		ps = append(ps, pkgs["github.com/ulikunitz/lz/suffix"], pkgs["github.com/ulikunitz/lz"])
		if err := ex.RunInit(ps); err != nil {
			ex.inconclusive("init: %v", err)
			return
		}
		var entry *ssa.Function
		for _, p := range ps {
			if f := p.Func(job.Entry); f != nil {
				entry = f
			}
		}
		if entry == nil {
			ex.inconclusive("entry %s not found", job.Entry)
			return
		}
		ex.Run(entry)
	}()
	res.Paths, res.PathsPanic, res.Steps, res.Forks = ex.Paths, ex.PathsPanic, ex.Steps, ex.Forks
	res.Asserts, res.AssertsProved = ex.Asserts, ex.AssertsProved
	res.Queries, res.QSat, res.QUnsat, res.QUnknown = ex.sol.Queries, ex.sol.NSat, ex.sol.NUnsat, ex.sol.NUnknown
	res.SolverSeconds = ex.sol.Time.Seconds()
	res.Terms, res.Vars = len(ex.tt.terms), len(ex.tt.vars)
	res.Violations = ex.Violations
	if res.Violations == nil {
		res.Violations = []Violation{}
	}
	res.Inconclusive = ex.Inconclusive
	if len(ex.sol.Errors) > 0 {
		res.SolverErrors = ex.sol.Errors
		if len(res.SolverErrors) > 5 {
			res.SolverErrors = res.SolverErrors[:5]
		}
		res.Inconclusive = append(res.Inconclusive, "solver printed (error ...) lines")
	}
	if res.Inconclusive == nil {
		res.Inconclusive = []string{}
	}
	res.Reach = ex.Reach
	res.QKinds = ex.QKinds
	res.Samples = ex.Samples
	if res.Samples == nil {
		res.Samples = []map[string]interface{}{}
	}
	// coverage of the functions of /repo that were entered
	var fns []string
	for fn := range ex.FnsEntered {
		if ex.info(fn).harness {
			continue
		}
		p := prog.Fset.Position(fn.Pos())
		if strings.Contains(filepath.Base(p.Filename), "zz_verif_") {
			continue
		}
		fns = append(fns, fn.String())
		for _, b := range fn.Blocks {
			res.BlocksTotal++
			if ex.Covered[b] {
				res.BlocksCovered++
			} else if len(res.Unreached) < 2000 {
				bp := token.NoPos
				for _, in := range b.Instrs {
					if in.Pos() != token.NoPos {
						bp = in.Pos()
						break
					}
				}
				res.Unreached = append(res.Unreached, fmt.Sprintf("%s#%d(%s:%d)", fn.String(), b.Index, shortFile(prog.Fset.Position(bp).Filename), prog.Fset.Position(bp).Line))
			}
		}
	}
	sort.Strings(fns)
	res.Functions = fns
	switch {
	case len(res.Violations) > 0:
		res.Verdict = "violated"
	case len(res.Inconclusive) > 0:
		res.Verdict = "inconclusive"
	default:
		res.Verdict = "holds"
	}
	res.WallSeconds = time.Since(start).Seconds()
	return res
}
