#!/bin/sh
# Runs the quick check of the property each seeded change breaks (plus extra properties given in
# seeded/<id>/also) against a scratch copy of /repo with the change applied; writes seeded/RESULTS.md.
# usage: run_seeded.sh [id ...]     (default: all)
cd /verif
export MUT_WORKERS=${MUT_WORKERS:-16} TRYMUT_TIMEOUT=${TRYMUT_TIMEOUT:-1500}
IDS="$@"
[ -z "$IDS" ] && IDS=$(ls seeded | grep -v RESULTS)
for id in $IDS; do
  d=seeded/$id
  [ -f $d/patch.diff ] || continue
  prop=$(python3 -c "import json;print(json.load(open('$d/meta.json'))['breaks_property'])")
  also=$(cat $d/also 2>/dev/null)
  tools/mutrun.sh $id /verif/$d/patch.diff $prop $also
  cp work/mut/$id.log $d/check_output.txt
done
python3 tools/seeded_results.py
