#!/bin/sh
# usage: trymut.sh <patch.diff> <PROP> [PROP...]   -- applies a patch to /repo, runs the quick checks, reverts
P=$1; shift
cd /repo || exit 9
git diff --quiet || { echo "/repo is dirty"; exit 9; }
if ! git apply "$P"; then echo "PATCH DOES NOT APPLY: $P"; exit 8; fi
for prop in "$@"; do
  echo "== $prop on $(basename $(dirname $P))/$(basename $P)"
  (cd /verif && timeout ${TRYMUT_TIMEOUT:-1500} ./check $prop ${TIER:-quick} 2>&1 | grep -E "^(VIOLATION|KNOWN|check |INCONCLUSIVE|ENCODER|  harness)" | head -12)
done
git -C /repo checkout -- . ; git -C /repo status --short | head -3
