#!/bin/sh
# usage: verify_mut.sh <ID> <N>   -- confirms a seeded change from /tmp/mut/out-<ID> against /repo HEAD in a scratch copy
ID=$1; N=$2
export GOFLAGS=-mod=mod GOPROXY=off GOSUMDB=off GOTOOLCHAIN=local
O=/tmp/mut/out-$ID
D=/tmp/mver/$ID-$N
rm -rf $D; mkdir -p $D; (cd /repo && git archive HEAD | tar -x -C $D)
PKG=$(python3 -c "import json;print(json.load(open('$O/meta$N.json')).get('demo_pkg','.'))")
case "$PKG" in ./suffix|suffix|./suffix/) SUB=suffix;; *) SUB=.;; esac
cp $O/zz_demo${N}_test.go $D/$SUB/
cd $D
CLEAN=$(go test -vet=off -count=1 -run "TestDemo$N\$" ./$SUB 2>&1 | tail -1)
if ! git apply $O/patch$N.diff 2>/dev/null; then echo "$ID-$N: PATCH-DOES-NOT-APPLY (clean demo: $CLEAN)"; rm -rf $D; exit 0; fi
if ! go build ./... 2>/dev/null; then echo "$ID-$N: BUILD-FAILS"; rm -rf $D; exit 0; fi
MUT=$(go test -vet=off -count=1 -run "TestDemo$N\$" ./$SUB 2>&1 | tail -1)
rm $D/$SUB/zz_demo${N}_test.go
SUITE=$(go test -vet=off -count=1 -json ./... 2>/dev/null | python3 -c "
import sys,json
res={}
for l in sys.stdin:
    try: e=json.loads(l)
    except: continue
    if e.get('Test') and e.get('Action') in('pass','fail'): res[e['Package']+'::'+e['Test']]=e['Action']
base=json.load(open('/root/.vp/BASELINE.json'))
miss=[t for t in base['stable_pass'] if res.get(t)!='pass']
print('suite-ok' if not miss else 'SUITE-BROKEN:'+','.join(miss))")
echo "$ID-$N: clean=[$CLEAN] mutated=[$MUT] $SUITE"
rm -rf $D
