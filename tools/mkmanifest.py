#!/usr/bin/env python3
"""Regenerates /verif/MANIFEST.json from checkdefs.META (claimed checks) and checkdefs.NOT_APPLICABLE."""
import json, os, sys
VERIF = os.path.dirname(os.path.dirname(os.path.abspath(__file__)))
sys.path.insert(0, VERIF)
import checkdefs

ids = [json.loads(l)["id"] for l in open(os.path.join(VERIF, "properties.jsonl"))]
checks, na = [], []
for pid in ids:
    m = checkdefs.META.get(pid)
    if m is None:
        na.append({"property_id": pid, "reason": checkdefs.NOT_APPLICABLE.get(pid, "check not built yet")})
        continue
    c = {
        "property_id": pid,
        "quick_cmd": "./check %s quick" % pid,
        "thorough_cmd": "./check %s thorough" % pid,
        "evidence_file": "/verif/evidence/%s.json" % pid,
        "replay_cmd_template": "./check --replay {path}",
        "engine": "gosymx",
        "level_claimed": {"category": "model_checking", "text": m["level"], "design_ref": m.get("design_ref", "DESIGN.md section 4, " + pid)},
        "level_note": m["note"],
        "technique": m.get("technique", "bounded symbolic execution of the go/ssa form of /repo's current source into SMT-LIB2 bit-vector queries decided by z3; "
                           "counterexamples replayed natively against the real build"),
    }
    if pid not in checkdefs.THOROUGH_VALIDATED:
        # a thorough bound is registered only after it ran clean on the unchanged tree
        del c["thorough_cmd"]
    checks.append(c)
man = {
    "version": 1,
    "setup_cmd": "cd /verif/engine && GOFLAGS=-mod=mod GOPROXY=off GOSUMDB=off GOTOOLCHAIN=local go build -o /verif/bin/gosymx .",
    "hooks": {
        "guard": "verif",
        "enable": "harnesses are injected as overlay files (/repo/zz_verif_*.go, never written to disk in /repo) and built with -tags verif; no in-tree hook exists",
        "baseline_off_cmd": "cd /repo && GOFLAGS=-mod=mod GOPROXY=off GOSUMDB=off go test -vet=off -count=1 ./...",
        "source_commits": [],
        "add_only": True,
    },
    "engines": [{"name": "gosymx", "path": "/verif/engine", "serves_properties": [c["property_id"] for c in checks],
                 "kind_free_text": "symbolic executor for go/ssa (x/tools v0.29.0) emitting SMT-LIB2 bit-vector queries to z3 (z3-new 5.1.0, one process per job); native replay of models"}],
    "checks": checks,
    "not_applicable": na,
    "notes": "see DESIGN.md; KNOWN_FINDINGS.json lists recorded findings and fixed defects",
}
json.dump(man, open(os.path.join(VERIF, "MANIFEST.json"), "w"), indent=1)
print("claimed:", [c["property_id"] for c in checks], "not applicable:", [n["property_id"] for n in na])
