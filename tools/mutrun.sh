#!/bin/sh
# usage: mutrun.sh <name> <patch.diff> <PROP> [PROP...]
# Runs the quick checks of the given properties against a scratch copy of /repo with the patch applied.
# Nothing in /repo or in /verif/evidence is touched; output: /verif/work/mut/<name>.log
NAME=$1; P=$2; shift; shift
D=/tmp/mrun/$NAME
rm -rf $D; mkdir -p $D/repo $D/out /verif/work/mut
(cd /repo && git archive HEAD | tar -x -C $D/repo)
LOG=/verif/work/mut/$NAME.log
: > $LOG
if ! (cd $D/repo && git apply "$P") >> $LOG 2>&1; then echo "PATCH DOES NOT APPLY" >> $LOG; rm -rf $D; exit 8; fi
for prop in "$@"; do
  echo "== $prop" >> $LOG
  (cd /verif && VERIF_REPO=$D/repo VERIF_OUT=$D/out VERIF_WORKERS=${MUT_WORKERS:-8} timeout ${TRYMUT_TIMEOUT:-1800} ./check $prop ${TIER:-quick} 2>&1 | grep -E "^(VIOLATION|KNOWN|check |INCONCLUSIVE|ENCODER|  harness)" | cut -c1-400 | head -8) >> $LOG
done
rm -rf $D
echo "$NAME: $(grep -c '^VIOLATION' $LOG) violation lines; $(grep '^check ' $LOG | sed 's/.*-> //' | tr '\n' ' ')"
