#!/usr/bin/env python3
"""Runs the repository's pinned suite (guard off) and compares with /root/.vp/BASELINE.json."""
import json, os, subprocess, sys
repo = sys.argv[1] if len(sys.argv) > 1 else "/repo"
env = dict(os.environ, GOFLAGS="-mod=mod", GOPROXY="off", GOSUMDB="off", GOTOOLCHAIN="local")
r = subprocess.run(["go", "test", "-json", "-vet=off", "-count=1", "-timeout", "25m", "./..."], cwd=repo, env=env, text=True, capture_output=True)
res = {}
for line in r.stdout.splitlines():
    try:
        e = json.loads(line)
    except Exception:
        continue
    if e.get("Test") and e.get("Action") in ("pass", "fail", "skip"):
        res[e["Package"] + "::" + e["Test"]] = e["Action"]
base = json.load(open("/root/.vp/BASELINE.json"))
missing = [t for t in base["stable_pass"] if res.get(t) != "pass"]
print("passing:", sum(1 for v in res.values() if v == "pass"), "failing:", sorted(k for k, v in res.items() if v == "fail"))
if missing:
    print("BASELINE BROKEN:", missing)
    sys.exit(1)
print("baseline ok: all %d stable tests pass" % len(base["stable_pass"]))
