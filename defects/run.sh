#!/bin/sh
# usage: run.sh [repo]  -- runs the defect demonstrations against a tree via overlay
REPO=${1:-/repo}
export GOFLAGS=-mod=mod GOPROXY=off GOSUMDB=off GOTOOLCHAIN=local
D=$(cd "$(dirname "$0")" && pwd)
OV=$(mktemp)
printf '{"Replace":{"%s/zz_defects_test.go":"%s/zz_defects_test.go","%s/suffix/zz_defects_suffix_test.go":"%s/zz_defects_suffix_test.go"}}' "$REPO" "$D" "$REPO" "$D" > $OV
cd $REPO && go test -vet=off -count=1 -overlay $OV -run 'TestD[0-9]' . ./suffix 2>&1 | grep -v "^=== RUN\|^    --- " 
rm -f $OV
