package lz

// Demonstrations of the defects of the pinned tree (DESIGN.md section 5).
// Each test fails on the pinned tree and passes after the corresponding fix.

import (
	"bytes"
	"errors"
	"io"
	"testing"
)

func zzExpand(t *testing.T, hist []byte, blk *Block) []byte {
	g := append([]byte(nil), hist...)
	lits := blk.Literals
	for _, s := range blk.Sequences {
		g = append(g, lits[:s.LitLen]...)
		lits = lits[s.LitLen:]
		for i := 0; i < int(s.MatchLen); i++ {
			g = append(g, g[len(g)-int(s.Offset)])
		}
	}
	return append(g, lits...)
}

func TestD1ByteAtEnd(t *testing.T) {
	var b ParserBuffer
	if err := b.Init(BufConfig{BufferSize: 16, WindowSize: 16, BlockSize: 8}); err != nil {
		t.Fatal(err)
	}
	b.Write([]byte("abc"))
	defer func() {
		if r := recover(); r != nil {
			t.Fatalf("ByteAt(end) panicked: %v", r)
		}
	}()
	_, err := b.ByteAt(3)
	if err != ErrEndOfBuffer {
		t.Fatalf("ByteAt(end): got %v want ErrEndOfBuffer", err)
	}
}

func zzDrain(t *testing.T, p Parser, total int) {
	sum := 0
	for i := 0; i < 100; i++ {
		n, err := p.Parse(nil, 0)
		if err == ErrEmptyBuffer {
			if sum != total {
				t.Fatalf("drained %d of %d", sum, total)
			}
			return
		}
		if err != nil {
			t.Fatal(err)
		}
		sum += n
	}
	t.Fatalf("Parse(nil) never drains the buffer (got %d bytes of %d)", sum, total)
}

func TestD2DHPParseNil(t *testing.T) {
	p, err := DHPConfig{BufferSize: 64, WindowSize: 64, BlockSize: 4}.NewParser()
	if err != nil {
		t.Fatal(err)
	}
	p.Write([]byte("abcdefghij"))
	zzDrain(t, p, 10)
}

func TestD3OSAPParseNil(t *testing.T) {
	p, err := (&OSAPConfig{BufferSize: 64, WindowSize: 64, BlockSize: 4}).NewParser()
	if err != nil {
		t.Fatal(err)
	}
	p.Write([]byte("abcdefghij"))
	zzDrain(t, p, 10)
}

func TestD4GSAPSkips(t *testing.T) {
	p, err := (&GSAPConfig{BufferSize: 64, WindowSize: 64, BlockSize: 64, MinMatchLen: 3}).NewParser()
	if err != nil {
		t.Fatal(err)
	}
	p.Write([]byte("abcXYabc"))
	var blk Block
	if _, err := p.Parse(&blk, 0); err != nil {
		t.Fatal(err)
	}
	if len(blk.Sequences) != 1 || blk.Sequences[0].MatchLen != 3 || blk.Sequences[0].Offset != 5 {
		t.Fatalf("GSAP misses the match abc..abc: %+v", blk.Sequences)
	}
}

func TestD5BitsetRegrow(t *testing.T) {
	var b bitset
	b.insert(200, 1000)
	b.clear()
	b.insert(130)
	b.insert(5)
	got := b.slice()
	if len(got) != 2 || got[0] != 5 || got[1] != 130 {
		t.Fatalf("bitset lost a member on in-place regrowth: %v", got)
	}
}

func zzCost(blk *Block) uint64 {
	c := 9 * uint64(len(blk.Literals))
	for _, s := range blk.Sequences {
		c += XZCost(s.MatchLen, s.Offset)
	}
	return c
}

func TestD9OSAPOptimal(t *testing.T) {
	p, err := (&OSAPConfig{BufferSize: 64, WindowSize: 64, BlockSize: 64, MinMatchLen: 2}).NewParser()
	if err != nil {
		t.Fatal(err)
	}
	p.Write([]byte("bbbabba"))
	var blk Block
	if _, err := p.Parse(&blk, 0); err != nil {
		t.Fatal(err)
	}
	if !bytes.Equal(zzExpand(t, nil, &blk), []byte("bbbabba")) {
		t.Fatal("round trip")
	}
	if c := zzCost(&blk); c > 34 {
		t.Fatalf("cost %d, optimum is 34: %+v %q", c, blk.Sequences, blk.Literals)
	}
}

type zzChunkReader struct {
	data []byte
}

func (r *zzChunkReader) Read(p []byte) (int, error) {
	if len(r.data) == 0 {
		return 0, io.EOF
	}
	n := copy(p, r.data)
	r.data = r.data[n:]
	return n, nil
}

func TestD13ShrinkEqBuffer(t *testing.T) {
	cfg := HPConfig{BufferSize: 8, ShrinkSize: 8, WindowSize: 8, BlockSize: 4}
	p, err := cfg.NewParser()
	if err != nil {
		return // rejected configuration is fine
	}
	defer func() {
		if r := recover(); r != nil {
			t.Fatalf("accepted configuration panics: %v", r)
		}
	}()
	w := Wrap(&zzChunkReader{data: make([]byte, 40)}, p)
	var blk Block
	total := 0
	for i := 0; i < 100; i++ {
		n, err := w.Parse(&blk, 0)
		total += n
		if err == io.EOF {
			break
		}
		if err != nil {
			t.Fatal(err)
		}
	}
	if total != 40 {
		t.Fatalf("parsed %d of 40 bytes", total)
	}
}

func TestD14ReadFromCap(t *testing.T) {
	var b ParserBuffer
	if err := b.Init(BufConfig{BufferSize: 8, WindowSize: 8, BlockSize: 8}); err != nil {
		t.Fatal(err)
	}
	big := make([]byte, 2, 200)
	if err := b.Reset(big); err != nil {
		t.Fatal(err)
	}
	_, err := b.ReadFrom(&zzChunkReader{data: make([]byte, 100)})
	if len(b.Data) > b.BufferSize {
		t.Fatalf("buffer holds %d bytes, BufferSize is %d (err=%v)", len(b.Data), b.BufferSize, err)
	}
	if !errors.Is(err, ErrFullBuffer) {
		t.Fatalf("err = %v", err)
	}
}

// D15: bucketParser.Parse stops scanning a bucket at an entry that looks empty
// ({pos 0, val 0}); the genuine entry of position 0 holding zero bytes looks the
// same, hides the younger entries behind it, and a block inside a run of one
// byte then carries two literals instead of at most one.
func TestD15BUPRunLiterals(t *testing.T) {
	cfg := BUPConfig{BufferSize: 256, WindowSize: 256, BlockSize: 32, InputLen: 3, HashBits: 1, BucketSize: 2}
	h := func(a, b, c byte) uint32 {
		x := uint64(a) | uint64(b)<<8 | uint64(c)<<16
		return hashValue(x, 63)
	}
	found := false
	for f1 := 1; f1 < 256 && !found; f1++ {
		for f2 := 1; f2 < 256 && !found; f2++ {
			for c := 1; c < 256 && !found; c++ {
				F1, F2, C := byte(f1), byte(f2), byte(c)
				if F1 == C || F2 == C || h(0, 0, F1) != 1 || h(0, F1, F2) != 1 || h(F1, F2, C) != 1 || h(F2, C, C) != 1 || h(C, C, C) != 0 {
					continue
				}
				found = true
				p, err := cfg.NewParser()
				if err != nil {
					t.Fatal(err)
				}
				data := append([]byte{0, 0, 0, F1, F2}, bytes.Repeat([]byte{C}, 40)...)
				p.Write(data[:5])
				var blk Block
				if n, err := p.Parse(&blk, 0); n != 5 || err != nil {
					t.Fatal(n, err)
				}
				p.Write(data[5:])
				n, err := p.Parse(&blk, 0)
				if n != 32 || err != nil {
					t.Fatal(n, err)
				}
				if len(blk.Literals) > 1 {
					t.Fatalf("block of 32 bytes inside a run of %#x carries %d literals: %+v", C, len(blk.Literals), blk.Sequences)
				}
			}
		}
	}
	if !found {
		t.Skip("no suitable bytes found")
	}
}

// D16: doubleHashDictionary.processSegment stored unmasked values, which contain
// bytes of the margin behind the data: a parser that reuses its buffer after
// Reset finds other matches than a new parser.
func TestD16DHPResetMargin(t *testing.T) {
	cfg := BDHPConfig{BufferSize: 8, ShrinkSize: 1, WindowSize: 8, BlockSize: 5, InputLen1: 2, InputLen2: 3, HashBits1: 1, HashBits2: 1}
	run := func(p Parser) []Block {
		var out []Block
		if err := p.Reset(nil); err != nil {
			t.Fatal(err)
		}
		p.Write([]byte{241, 72, 84, 0})
		if n, err := p.Parse(nil, 0); n != 4 || err != nil {
			t.Fatal(n, err)
		}
		p.Write([]byte{14, 72, 84})
		for {
			var blk Block
			if _, err := p.Parse(&blk, 0); err != nil {
				break
			}
			out = append(out, Block{Sequences: append([]Seq(nil), blk.Sequences...), Literals: append([]byte(nil), blk.Literals...)})
		}
		return out
	}
	used, err := cfg.NewParser()
	if err != nil {
		t.Fatal(err)
	}
	used.Write([]byte{9, 9, 9, 9, 1}) // leaves the byte 1 behind the four bytes written after the Reset
	var tmp Block
	used.Parse(&tmp, 0)
	fresh, _ := cfg.NewParser()
	a, b := run(used), run(fresh)
	if len(a) != len(b) {
		t.Fatalf("reset parser: %+v, new parser: %+v", a, b)
	}
	for i := range a {
		if len(a[i].Sequences) != len(b[i].Sequences) || !bytes.Equal(a[i].Literals, b[i].Literals) {
			t.Fatalf("reset parser: %+v, new parser: %+v", a, b)
		}
	}
}

// D18: GSAP with NoTrailingLiterals left the positions behind the last match in
// its search set; in the next call they hide earlier positions.
func TestD18GSAPNoTrailingLiterals(t *testing.T) {
	data := []byte("aabbaaabaaaa")
	p, err := (&GSAPConfig{BufferSize: 64, WindowSize: 64, BlockSize: 5, MinMatchLen: 3}).NewParser()
	if err != nil {
		t.Fatal(err)
	}
	p.Write(data)
	pos := 0
	for {
		var blk Block
		n, err := p.Parse(&blk, NoTrailingLiterals)
		if err != nil {
			break
		}
		if pos == 8 && (len(blk.Sequences) == 0 || blk.Sequences[0].LitLen > 0) {
			t.Fatalf("block at 8: position 8 emitted as literal although position 4 offers a match of 3 bytes: %+v %q", blk.Sequences, blk.Literals)
		}
		pos += n
	}
}
