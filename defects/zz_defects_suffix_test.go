package suffix

import "testing"

func TestD7Segments(t *testing.T) {
	// suffix ranks 0,1,2 with lcp [0,2,1]: the group of common prefix 1 is {0,1,2}
	sa := []int32{10, 11, 12}
	lcp := []int32{0, 2, 1}
	var got [][]int32
	var ms []int
	Segments(sa, lcp, 1, 2, func(m int, s []int32) {
		got = append(got, append([]int32(nil), s...))
		ms = append(ms, m)
	})
	ok := false
	for i, g := range got {
		if ms[i] == 1 && len(g) == 3 {
			ok = true
		}
	}
	if !ok {
		t.Fatalf("group with m=1 is incomplete: %v %v", ms, got)
	}
}

func TestD8SegmentsEmpty(t *testing.T) {
	defer func() {
		if r := recover(); r != nil {
			t.Fatalf("Segments on the empty text panicked: %v", r)
		}
	}()
	Segments(nil, nil, 0, 0, func(m int, s []int32) {})
}
